(set-option :auto_config false)
(set-option :smt.mbqi false)
(set-option :smt.case_split 3)
(set-option :smt.qi.eager_threshold 100.0)
(set-option :smt.delay_units true)
(set-option :smt.arith.solver 2)
(set-option :smt.arith.nl false)
(set-option :pi.enabled false)
(set-option :rewriter.sort_disjunctions false)

;; Prelude

;; AIR prelude
(declare-sort %%Function%% 0)

(declare-sort FuelId 0)
(declare-sort Fuel 0)
(declare-const zero Fuel)
(declare-fun succ (Fuel) Fuel)
(declare-fun fuel_bool (FuelId) Bool)
(declare-fun fuel_bool_default (FuelId) Bool)
(declare-const fuel_defaults Bool)
(assert
 (=>
  fuel_defaults
  (forall ((id FuelId)) (!
    (= (fuel_bool id) (fuel_bool_default id))
    :pattern ((fuel_bool id))
    :qid prelude_fuel_defaults
    :skolemid skolem_prelude_fuel_defaults
))))
(declare-datatypes ((fndef 0)) (((fndef_singleton))))
(declare-sort Poly 0)
(declare-sort Height 0)
(declare-fun I (Int) Poly)
(declare-fun B (Bool) Poly)
(declare-fun R (Real) Poly)
(declare-fun F (fndef) Poly)
(declare-fun %I (Poly) Int)
(declare-fun %B (Poly) Bool)
(declare-fun %R (Poly) Real)
(declare-fun %F (Poly) fndef)
(declare-sort Type 0)
(declare-const BOOL Type)
(declare-const INT Type)
(declare-const NAT Type)
(declare-const REAL Type)
(declare-const CHAR Type)
(declare-const USIZE Type)
(declare-const ISIZE Type)
(declare-const TYPE%tuple%0. Type)
(declare-fun UINT (Int) Type)
(declare-fun SINT (Int) Type)
(declare-fun FLOAT (Int) Type)
(declare-fun CONST_INT (Int) Type)
(declare-fun CONST_BOOL (Bool) Type)
(declare-sort Dcr 0)
(declare-const $ Dcr)
(declare-const $slice Dcr)
(declare-const $dyn Dcr)
(declare-fun DST (Dcr) Dcr)
(declare-fun REF (Dcr) Dcr)
(declare-fun BOX (Dcr Type Dcr) Dcr)
(declare-fun RC (Dcr Type Dcr) Dcr)
(declare-fun ARC (Dcr Type Dcr) Dcr)
(declare-fun GHOST (Dcr) Dcr)
(declare-fun TRACKED (Dcr) Dcr)
(declare-fun NEVER (Dcr) Dcr)
(declare-fun CONST_PTR (Dcr) Dcr)
(declare-fun ARRAY (Dcr Type Dcr Type) Type)
(declare-fun MUTREF (Dcr Type) Type)
(declare-fun SLICE (Dcr Type) Type)
(declare-const STRSLICE Type)
(declare-const ALLOCATOR_GLOBAL Type)
(declare-fun PTR (Dcr Type) Type)
(declare-fun has_type (Poly Type) Bool)
(declare-fun sized (Dcr) Bool)
(declare-fun as_type (Poly Type) Poly)
(declare-fun mk_fun (%%Function%%) %%Function%%)
(declare-fun const_int (Type) Int)
(declare-fun const_bool (Type) Bool)
(declare-fun mut_ref_current% (Poly) Poly)
(declare-fun mut_ref_future% (Poly) Poly)
(declare-fun mut_ref_update_current% (Poly Poly) Poly)
(assert
 (forall ((m Poly) (arg Poly)) (!
   (= (mut_ref_current% (mut_ref_update_current% m arg)) arg)
   :pattern ((mut_ref_update_current% m arg))
   :qid prelude_mut_ref_update_current_current
   :skolemid skolem_prelude_mut_ref_update_current_current
)))
(assert
 (forall ((m Poly) (arg Poly)) (!
   (= (mut_ref_future% (mut_ref_update_current% m arg)) (mut_ref_future% m))
   :pattern ((mut_ref_update_current% m arg))
   :qid prelude_mut_ref_update_current_future
   :skolemid skolem_prelude_mut_ref_update_current_future
)))
(assert
 (forall ((m Poly) (d Dcr) (t Type)) (!
   (=>
    (has_type m (MUTREF d t))
    (has_type (mut_ref_current% m) t)
   )
   :pattern ((has_type m (MUTREF d t)) (mut_ref_current% m))
   :qid prelude_mut_ref_current_has_type
   :skolemid skolem_prelude_mut_ref_current_has_type
)))
(assert
 (forall ((m Poly) (d Dcr) (t Type)) (!
   (=>
    (has_type m (MUTREF d t))
    (has_type (mut_ref_future% m) t)
   )
   :pattern ((has_type m (MUTREF d t)) (mut_ref_future% m))
   :qid prelude_mut_ref_future_has_type
   :skolemid skolem_prelude_mut_ref_future_has_type
)))
(assert
 (forall ((m Poly) (d Dcr) (t Type) (arg Poly)) (!
   (=>
    (and
     (has_type m (MUTREF d t))
     (has_type arg t)
    )
    (has_type (mut_ref_update_current% m arg) (MUTREF d t))
   )
   :pattern ((has_type m (MUTREF d t)) (mut_ref_update_current% m arg))
   :qid prelude_mut_ref_update_has_type
   :skolemid skolem_prelude_mut_ref_update_has_type
)))
(assert
 (forall ((d Dcr)) (!
   (=>
    (sized d)
    (sized (DST d))
   )
   :pattern ((sized (DST d)))
   :qid prelude_sized_decorate_struct_inherit
   :skolemid skolem_prelude_sized_decorate_struct_inherit
)))
(assert
 (forall ((d Dcr)) (!
   (sized (REF d))
   :pattern ((sized (REF d)))
   :qid prelude_sized_decorate_ref
   :skolemid skolem_prelude_sized_decorate_ref
)))
(assert
 (forall ((d Dcr) (t Type) (d2 Dcr)) (!
   (sized (BOX d t d2))
   :pattern ((sized (BOX d t d2)))
   :qid prelude_sized_decorate_box
   :skolemid skolem_prelude_sized_decorate_box
)))
(assert
 (forall ((d Dcr) (t Type) (d2 Dcr)) (!
   (sized (RC d t d2))
   :pattern ((sized (RC d t d2)))
   :qid prelude_sized_decorate_rc
   :skolemid skolem_prelude_sized_decorate_rc
)))
(assert
 (forall ((d Dcr) (t Type) (d2 Dcr)) (!
   (sized (ARC d t d2))
   :pattern ((sized (ARC d t d2)))
   :qid prelude_sized_decorate_arc
   :skolemid skolem_prelude_sized_decorate_arc
)))
(assert
 (forall ((d Dcr)) (!
   (sized (GHOST d))
   :pattern ((sized (GHOST d)))
   :qid prelude_sized_decorate_ghost
   :skolemid skolem_prelude_sized_decorate_ghost
)))
(assert
 (forall ((d Dcr)) (!
   (sized (TRACKED d))
   :pattern ((sized (TRACKED d)))
   :qid prelude_sized_decorate_tracked
   :skolemid skolem_prelude_sized_decorate_tracked
)))
(assert
 (forall ((d Dcr)) (!
   (sized (NEVER d))
   :pattern ((sized (NEVER d)))
   :qid prelude_sized_decorate_never
   :skolemid skolem_prelude_sized_decorate_never
)))
(assert
 (forall ((d Dcr)) (!
   (sized (CONST_PTR d))
   :pattern ((sized (CONST_PTR d)))
   :qid prelude_sized_decorate_const_ptr
   :skolemid skolem_prelude_sized_decorate_const_ptr
)))
(assert
 (sized $)
)
(assert
 (forall ((i Int)) (!
   (= i (const_int (CONST_INT i)))
   :pattern ((CONST_INT i))
   :qid prelude_type_id_const_int
   :skolemid skolem_prelude_type_id_const_int
)))
(assert
 (forall ((b Bool)) (!
   (= b (const_bool (CONST_BOOL b)))
   :pattern ((CONST_BOOL b))
   :qid prelude_type_id_const_bool
   :skolemid skolem_prelude_type_id_const_bool
)))
(assert
 (forall ((b Bool)) (!
   (has_type (B b) BOOL)
   :pattern ((has_type (B b) BOOL))
   :qid prelude_has_type_bool
   :skolemid skolem_prelude_has_type_bool
)))
(assert
 (forall ((r Real)) (!
   (has_type (R r) REAL)
   :pattern ((has_type (R r) REAL))
   :qid prelude_has_type_real
   :skolemid skolem_prelude_has_type_real
)))
(assert
 (forall ((x Poly) (t Type)) (!
   (and
    (has_type (as_type x t) t)
    (=>
     (has_type x t)
     (= x (as_type x t))
   ))
   :pattern ((as_type x t))
   :qid prelude_as_type
   :skolemid skolem_prelude_as_type
)))
(assert
 (forall ((x %%Function%%)) (!
   (= (mk_fun x) x)
   :pattern ((mk_fun x))
   :qid prelude_mk_fun
   :skolemid skolem_prelude_mk_fun
)))
(assert
 (forall ((x Bool)) (!
   (= x (%B (B x)))
   :pattern ((B x))
   :qid prelude_unbox_box_bool
   :skolemid skolem_prelude_unbox_box_bool
)))
(assert
 (forall ((x Int)) (!
   (= x (%I (I x)))
   :pattern ((I x))
   :qid prelude_unbox_box_int
   :skolemid skolem_prelude_unbox_box_int
)))
(assert
 (forall ((x Real)) (!
   (= x (%R (R x)))
   :pattern ((R x))
   :qid prelude_unbox_box_real
   :skolemid skolem_prelude_unbox_box_real
)))
(assert
 (forall ((x Poly)) (!
   (=>
    (has_type x BOOL)
    (= x (B (%B x)))
   )
   :pattern ((has_type x BOOL))
   :qid prelude_box_unbox_bool
   :skolemid skolem_prelude_box_unbox_bool
)))
(assert
 (forall ((x Poly)) (!
   (=>
    (has_type x INT)
    (= x (I (%I x)))
   )
   :pattern ((has_type x INT))
   :qid prelude_box_unbox_int
   :skolemid skolem_prelude_box_unbox_int
)))
(assert
 (forall ((x Poly)) (!
   (=>
    (has_type x NAT)
    (= x (I (%I x)))
   )
   :pattern ((has_type x NAT))
   :qid prelude_box_unbox_nat
   :skolemid skolem_prelude_box_unbox_nat
)))
(assert
 (forall ((x Poly)) (!
   (=>
    (has_type x USIZE)
    (= x (I (%I x)))
   )
   :pattern ((has_type x USIZE))
   :qid prelude_box_unbox_usize
   :skolemid skolem_prelude_box_unbox_usize
)))
(assert
 (forall ((x Poly)) (!
   (=>
    (has_type x ISIZE)
    (= x (I (%I x)))
   )
   :pattern ((has_type x ISIZE))
   :qid prelude_box_unbox_isize
   :skolemid skolem_prelude_box_unbox_isize
)))
(assert
 (forall ((bits Int) (x Poly)) (!
   (=>
    (has_type x (UINT bits))
    (= x (I (%I x)))
   )
   :pattern ((has_type x (UINT bits)))
   :qid prelude_box_unbox_uint
   :skolemid skolem_prelude_box_unbox_uint
)))
(assert
 (forall ((bits Int) (x Poly)) (!
   (=>
    (has_type x (SINT bits))
    (= x (I (%I x)))
   )
   :pattern ((has_type x (SINT bits)))
   :qid prelude_box_unbox_sint
   :skolemid skolem_prelude_box_unbox_sint
)))
(assert
 (forall ((bits Int) (x Poly)) (!
   (=>
    (has_type x (FLOAT bits))
    (= x (I (%I x)))
   )
   :pattern ((has_type x (FLOAT bits)))
   :qid prelude_box_unbox_float
   :skolemid skolem_prelude_box_unbox_float
)))
(assert
 (forall ((x Poly)) (!
   (=>
    (has_type x CHAR)
    (= x (I (%I x)))
   )
   :pattern ((has_type x CHAR))
   :qid prelude_box_unbox_char
   :skolemid skolem_prelude_box_unbox_char
)))
(assert
 (forall ((x Poly)) (!
   (=>
    (has_type x REAL)
    (= x (R (%R x)))
   )
   :pattern ((has_type x REAL))
   :qid prelude_box_unbox_real
   :skolemid skolem_prelude_box_unbox_real
)))
(declare-fun ext_eq (Bool Type Poly Poly) Bool)
(assert
 (forall ((deep Bool) (t Type) (x Poly) (y Poly)) (!
   (= (= x y) (ext_eq deep t x y))
   :pattern ((ext_eq deep t x y))
   :qid prelude_ext_eq
   :skolemid skolem_prelude_ext_eq
)))
(declare-const SZ Int)
(assert
 (or
  (= SZ 32)
  (= SZ 64)
))
(declare-fun uHi (Int) Int)
(declare-fun iLo (Int) Int)
(declare-fun iHi (Int) Int)
(assert
 (= (uHi 8) 256)
)
(assert
 (= (uHi 16) 65536)
)
(assert
 (= (uHi 32) 4294967296)
)
(assert
 (= (uHi 64) 18446744073709551616)
)
(assert
 (= (uHi 128) (+ 1 340282366920938463463374607431768211455))
)
(assert
 (= (iLo 8) (- 128))
)
(assert
 (= (iLo 16) (- 32768))
)
(assert
 (= (iLo 32) (- 2147483648))
)
(assert
 (= (iLo 64) (- 9223372036854775808))
)
(assert
 (= (iLo 128) (- 170141183460469231731687303715884105728))
)
(assert
 (= (iHi 8) 128)
)
(assert
 (= (iHi 16) 32768)
)
(assert
 (= (iHi 32) 2147483648)
)
(assert
 (= (iHi 64) 9223372036854775808)
)
(assert
 (= (iHi 128) 170141183460469231731687303715884105728)
)
(declare-fun nClip (Int) Int)
(declare-fun uClip (Int Int) Int)
(declare-fun iClip (Int Int) Int)
(declare-fun charClip (Int) Int)
(assert
 (forall ((i Int)) (!
   (and
    (<= 0 (nClip i))
    (=>
     (<= 0 i)
     (= i (nClip i))
   ))
   :pattern ((nClip i))
   :qid prelude_nat_clip
   :skolemid skolem_prelude_nat_clip
)))
(assert
 (forall ((bits Int) (i Int)) (!
   (and
    (<= 0 (uClip bits i))
    (< (uClip bits i) (uHi bits))
    (=>
     (and
      (<= 0 i)
      (< i (uHi bits))
     )
     (= i (uClip bits i))
   ))
   :pattern ((uClip bits i))
   :qid prelude_u_clip
   :skolemid skolem_prelude_u_clip
)))
(assert
 (forall ((bits Int) (i Int)) (!
   (and
    (<= (iLo bits) (iClip bits i))
    (< (iClip bits i) (iHi bits))
    (=>
     (and
      (<= (iLo bits) i)
      (< i (iHi bits))
     )
     (= i (iClip bits i))
   ))
   :pattern ((iClip bits i))
   :qid prelude_i_clip
   :skolemid skolem_prelude_i_clip
)))
(assert
 (forall ((i Int)) (!
   (and
    (or
     (and
      (<= 0 (charClip i))
      (<= (charClip i) 55295)
     )
     (and
      (<= 57344 (charClip i))
      (<= (charClip i) 1114111)
    ))
    (=>
     (or
      (and
       (<= 0 i)
       (<= i 55295)
      )
      (and
       (<= 57344 i)
       (<= i 1114111)
     ))
     (= i (charClip i))
   ))
   :pattern ((charClip i))
   :qid prelude_char_clip
   :skolemid skolem_prelude_char_clip
)))
(declare-fun uInv (Int Int) Bool)
(declare-fun iInv (Int Int) Bool)
(declare-fun charInv (Int) Bool)
(assert
 (forall ((bits Int) (i Int)) (!
   (= (uInv bits i) (and
     (<= 0 i)
     (< i (uHi bits))
   ))
   :pattern ((uInv bits i))
   :qid prelude_u_inv
   :skolemid skolem_prelude_u_inv
)))
(assert
 (forall ((bits Int) (i Int)) (!
   (= (iInv bits i) (and
     (<= (iLo bits) i)
     (< i (iHi bits))
   ))
   :pattern ((iInv bits i))
   :qid prelude_i_inv
   :skolemid skolem_prelude_i_inv
)))
(assert
 (forall ((i Int)) (!
   (= (charInv i) (or
     (and
      (<= 0 i)
      (<= i 55295)
     )
     (and
      (<= 57344 i)
      (<= i 1114111)
   )))
   :pattern ((charInv i))
   :qid prelude_char_inv
   :skolemid skolem_prelude_char_inv
)))
(assert
 (forall ((x Int)) (!
   (has_type (I x) INT)
   :pattern ((has_type (I x) INT))
   :qid prelude_has_type_int
   :skolemid skolem_prelude_has_type_int
)))
(assert
 (forall ((x Int)) (!
   (=>
    (<= 0 x)
    (has_type (I x) NAT)
   )
   :pattern ((has_type (I x) NAT))
   :qid prelude_has_type_nat
   :skolemid skolem_prelude_has_type_nat
)))
(assert
 (forall ((x Int)) (!
   (=>
    (uInv SZ x)
    (has_type (I x) USIZE)
   )
   :pattern ((has_type (I x) USIZE))
   :qid prelude_has_type_usize
   :skolemid skolem_prelude_has_type_usize
)))
(assert
 (forall ((x Int)) (!
   (=>
    (iInv SZ x)
    (has_type (I x) ISIZE)
   )
   :pattern ((has_type (I x) ISIZE))
   :qid prelude_has_type_isize
   :skolemid skolem_prelude_has_type_isize
)))
(assert
 (forall ((bits Int) (x Int)) (!
   (=>
    (uInv bits x)
    (has_type (I x) (UINT bits))
   )
   :pattern ((has_type (I x) (UINT bits)))
   :qid prelude_has_type_uint
   :skolemid skolem_prelude_has_type_uint
)))
(assert
 (forall ((bits Int) (x Int)) (!
   (=>
    (iInv bits x)
    (has_type (I x) (SINT bits))
   )
   :pattern ((has_type (I x) (SINT bits)))
   :qid prelude_has_type_sint
   :skolemid skolem_prelude_has_type_sint
)))
(assert
 (forall ((bits Int) (x Int)) (!
   (=>
    (uInv bits x)
    (has_type (I x) (FLOAT bits))
   )
   :pattern ((has_type (I x) (FLOAT bits)))
   :qid prelude_has_type_float
   :skolemid skolem_prelude_has_type_float
)))
(assert
 (forall ((x Int)) (!
   (=>
    (charInv x)
    (has_type (I x) CHAR)
   )
   :pattern ((has_type (I x) CHAR))
   :qid prelude_has_type_char
   :skolemid skolem_prelude_has_type_char
)))
(assert
 (forall ((x Poly)) (!
   (=>
    (has_type x NAT)
    (<= 0 (%I x))
   )
   :pattern ((has_type x NAT))
   :qid prelude_unbox_int
   :skolemid skolem_prelude_unbox_int
)))
(assert
 (forall ((x Poly)) (!
   (=>
    (has_type x USIZE)
    (uInv SZ (%I x))
   )
   :pattern ((has_type x USIZE))
   :qid prelude_unbox_usize
   :skolemid skolem_prelude_unbox_usize
)))
(assert
 (forall ((x Poly)) (!
   (=>
    (has_type x CHAR)
    (charInv (%I x))
   )
   :pattern ((has_type x CHAR))
   :qid prelude_unbox_char
   :skolemid skolem_prelude_unbox_char
)))
(assert
 (forall ((x Poly)) (!
   (=>
    (has_type x ISIZE)
    (iInv SZ (%I x))
   )
   :pattern ((has_type x ISIZE))
   :qid prelude_unbox_isize
   :skolemid skolem_prelude_unbox_isize
)))
(assert
 (forall ((bits Int) (x Poly)) (!
   (=>
    (has_type x (UINT bits))
    (uInv bits (%I x))
   )
   :pattern ((has_type x (UINT bits)))
   :qid prelude_unbox_uint
   :skolemid skolem_prelude_unbox_uint
)))
(assert
 (forall ((bits Int) (x Poly)) (!
   (=>
    (has_type x (SINT bits))
    (iInv bits (%I x))
   )
   :pattern ((has_type x (SINT bits)))
   :qid prelude_unbox_sint
   :skolemid skolem_prelude_unbox_sint
)))
(assert
 (forall ((bits Int) (x Poly)) (!
   (=>
    (has_type x (FLOAT bits))
    (uInv bits (%I x))
   )
   :pattern ((has_type x (FLOAT bits)))
   :qid prelude_unbox_float
   :skolemid skolem_prelude_unbox_float
)))
(declare-fun Add (Int Int) Int)
(declare-fun Sub (Int Int) Int)
(declare-fun Mul (Int Int) Int)
(declare-fun EucDiv (Int Int) Int)
(declare-fun EucMod (Int Int) Int)
(declare-fun RAdd (Real Real) Real)
(declare-fun RSub (Real Real) Real)
(declare-fun RMul (Real Real) Real)
(declare-fun RDiv (Real Real) Real)
(assert
 (forall ((x Int) (y Int)) (!
   (= (Add x y) (+ x y))
   :pattern ((Add x y))
   :qid prelude_add
   :skolemid skolem_prelude_add
)))
(assert
 (forall ((x Int) (y Int)) (!
   (= (Sub x y) (- x y))
   :pattern ((Sub x y))
   :qid prelude_sub
   :skolemid skolem_prelude_sub
)))
(assert
 (forall ((x Int) (y Int)) (!
   (= (Mul x y) (* x y))
   :pattern ((Mul x y))
   :qid prelude_mul
   :skolemid skolem_prelude_mul
)))
(assert
 (forall ((x Int) (y Int)) (!
   (= (EucDiv x y) (div x y))
   :pattern ((EucDiv x y))
   :qid prelude_eucdiv
   :skolemid skolem_prelude_eucdiv
)))
(assert
 (forall ((x Int) (y Int)) (!
   (= (EucMod x y) (mod x y))
   :pattern ((EucMod x y))
   :qid prelude_eucmod
   :skolemid skolem_prelude_eucmod
)))
(assert
 (forall ((x Real) (y Real)) (!
   (= (RAdd x y) (+ x y))
   :pattern ((RAdd x y))
   :qid prelude_radd
   :skolemid skolem_prelude_radd
)))
(assert
 (forall ((x Real) (y Real)) (!
   (= (RSub x y) (- x y))
   :pattern ((RSub x y))
   :qid prelude_rsub
   :skolemid skolem_prelude_rsub
)))
(assert
 (forall ((x Real) (y Real)) (!
   (= (RMul x y) (* x y))
   :pattern ((RMul x y))
   :qid prelude_rmul
   :skolemid skolem_prelude_rmul
)))
(assert
 (forall ((x Real) (y Real)) (!
   (= (RDiv x y) (/ x y))
   :pattern ((RDiv x y))
   :qid prelude_rdiv
   :skolemid skolem_prelude_rdiv
)))
(assert
 (forall ((x Int) (y Int)) (!
   (=>
    (and
     (<= 0 x)
     (<= 0 y)
    )
    (<= 0 (Mul x y))
   )
   :pattern ((Mul x y))
   :qid prelude_mul_nats
   :skolemid skolem_prelude_mul_nats
)))
(assert
 (forall ((x Int) (y Int)) (!
   (=>
    (and
     (<= 0 x)
     (< 0 y)
    )
    (and
     (<= 0 (EucDiv x y))
     (<= (EucDiv x y) x)
   ))
   :pattern ((EucDiv x y))
   :qid prelude_div_unsigned_in_bounds
   :skolemid skolem_prelude_div_unsigned_in_bounds
)))
(assert
 (forall ((x Int) (y Int)) (!
   (=>
    (and
     (<= 0 x)
     (< 0 y)
    )
    (and
     (<= 0 (EucMod x y))
     (< (EucMod x y) y)
   ))
   :pattern ((EucMod x y))
   :qid prelude_mod_unsigned_in_bounds
   :skolemid skolem_prelude_mod_unsigned_in_bounds
)))
(declare-fun bitxor (Poly Poly) Int)
(declare-fun bitand (Poly Poly) Int)
(declare-fun bitor (Poly Poly) Int)
(declare-fun bitshr (Poly Poly) Int)
(declare-fun bitshl (Poly Poly) Int)
(declare-fun bitnot (Poly) Int)
(assert
 (forall ((x Poly) (y Poly) (bits Int)) (!
   (=>
    (and
     (uInv bits (%I x))
     (uInv bits (%I y))
    )
    (uInv bits (bitxor x y))
   )
   :pattern ((uClip bits (bitxor x y)))
   :qid prelude_bit_xor_u_inv
   :skolemid skolem_prelude_bit_xor_u_inv
)))
(assert
 (forall ((x Poly) (y Poly) (bits Int)) (!
   (=>
    (and
     (iInv bits (%I x))
     (iInv bits (%I y))
    )
    (iInv bits (bitxor x y))
   )
   :pattern ((iClip bits (bitxor x y)))
   :qid prelude_bit_xor_i_inv
   :skolemid skolem_prelude_bit_xor_i_inv
)))
(assert
 (forall ((x Poly) (y Poly) (bits Int)) (!
   (=>
    (and
     (uInv bits (%I x))
     (uInv bits (%I y))
    )
    (uInv bits (bitor x y))
   )
   :pattern ((uClip bits (bitor x y)))
   :qid prelude_bit_or_u_inv
   :skolemid skolem_prelude_bit_or_u_inv
)))
(assert
 (forall ((x Poly) (y Poly) (bits Int)) (!
   (=>
    (and
     (iInv bits (%I x))
     (iInv bits (%I y))
    )
    (iInv bits (bitor x y))
   )
   :pattern ((iClip bits (bitor x y)))
   :qid prelude_bit_or_i_inv
   :skolemid skolem_prelude_bit_or_i_inv
)))
(assert
 (forall ((x Poly) (y Poly) (bits Int)) (!
   (=>
    (and
     (uInv bits (%I x))
     (uInv bits (%I y))
    )
    (uInv bits (bitand x y))
   )
   :pattern ((uClip bits (bitand x y)))
   :qid prelude_bit_and_u_inv
   :skolemid skolem_prelude_bit_and_u_inv
)))
(assert
 (forall ((x Poly) (y Poly) (bits Int)) (!
   (=>
    (and
     (iInv bits (%I x))
     (iInv bits (%I y))
    )
    (iInv bits (bitand x y))
   )
   :pattern ((iClip bits (bitand x y)))
   :qid prelude_bit_and_i_inv
   :skolemid skolem_prelude_bit_and_i_inv
)))
(assert
 (forall ((x Poly) (y Poly) (bits Int)) (!
   (=>
    (and
     (uInv bits (%I x))
     (<= 0 (%I y))
    )
    (uInv bits (bitshr x y))
   )
   :pattern ((uClip bits (bitshr x y)))
   :qid prelude_bit_shr_u_inv
   :skolemid skolem_prelude_bit_shr_u_inv
)))
(assert
 (forall ((x Poly) (y Poly) (bits Int)) (!
   (=>
    (and
     (iInv bits (%I x))
     (<= 0 (%I y))
    )
    (iInv bits (bitshr x y))
   )
   :pattern ((iClip bits (bitshr x y)))
   :qid prelude_bit_shr_i_inv
   :skolemid skolem_prelude_bit_shr_i_inv
)))
(declare-fun singular_mod (Int Int) Int)
(assert
 (forall ((x Int) (y Int)) (!
   (=>
    (not (= y 0))
    (= (EucMod x y) (singular_mod x y))
   )
   :pattern ((singular_mod x y))
   :qid prelude_singularmod
   :skolemid skolem_prelude_singularmod
)))
(declare-fun has_resolved (Dcr Type Poly) Bool)
(declare-fun closure_req (Type Dcr Type Poly Poly) Bool)
(declare-fun closure_ens (Type Dcr Type Poly Poly Poly) Bool)
(declare-fun default_ens (Type Dcr Type Poly Poly Poly) Bool)
(declare-fun height (Poly) Height)
(declare-fun height_lt (Height Height) Bool)
(declare-fun fun_from_recursive_field (Poly) Poly)
(declare-fun check_decrease_height (Poly Poly Bool) Bool)
(assert
 (forall ((cur Poly) (prev Poly) (otherwise Bool)) (!
   (= (check_decrease_height cur prev otherwise) (or
     (height_lt (height cur) (height prev))
     (and
      (= (height cur) (height prev))
      otherwise
   )))
   :pattern ((check_decrease_height cur prev otherwise))
   :qid prelude_check_decrease_height
   :skolemid skolem_prelude_check_decrease_height
)))
(assert
 (forall ((cur Int) (prev Int)) (!
   (= (height_lt (height (I cur)) (height (I prev))) (and
     (<= 0 cur)
     (< cur prev)
   ))
   :pattern ((height_lt (height (I cur)) (height (I prev))))
   :qid prelude_check_decrease_int_height
   :skolemid skolem_prelude_check_decrease_int_height
)))
(assert
 (forall ((x Height) (y Height)) (!
   (= (height_lt x y) (and
     ((_ partial-order 0) x y)
     (not (= x y))
   ))
   :pattern ((height_lt x y))
   :qid prelude_height_lt
   :skolemid skolem_prelude_height_lt
)))

;; MODULE 'root module'

;; Fuel
(declare-const fuel%vstd!std_specs.convert.impl&%6.obeys_from_spec. FuelId)
(declare-const fuel%vstd!std_specs.convert.impl&%6.from_spec. FuelId)
(declare-const fuel%vstd!std_specs.convert.impl&%7.obeys_from_spec. FuelId)
(declare-const fuel%vstd!std_specs.convert.impl&%7.from_spec. FuelId)
(declare-const fuel%vstd!std_specs.convert.impl&%8.obeys_from_spec. FuelId)
(declare-const fuel%vstd!std_specs.convert.impl&%8.from_spec. FuelId)
(declare-const fuel%vstd!std_specs.convert.impl&%9.obeys_from_spec. FuelId)
(declare-const fuel%vstd!std_specs.convert.impl&%9.from_spec. FuelId)
(declare-const fuel%vstd!std_specs.convert.impl&%10.obeys_from_spec. FuelId)
(declare-const fuel%vstd!std_specs.convert.impl&%10.from_spec. FuelId)
(declare-const fuel%vstd!std_specs.convert.impl&%11.obeys_from_spec. FuelId)
(declare-const fuel%vstd!std_specs.convert.impl&%11.from_spec. FuelId)
(declare-const fuel%vstd!std_specs.convert.impl&%12.obeys_from_spec. FuelId)
(declare-const fuel%vstd!std_specs.convert.impl&%12.from_spec. FuelId)
(declare-const fuel%vstd!std_specs.convert.impl&%13.obeys_from_spec. FuelId)
(declare-const fuel%vstd!std_specs.convert.impl&%13.from_spec. FuelId)
(declare-const fuel%vstd!std_specs.convert.impl&%14.obeys_from_spec. FuelId)
(declare-const fuel%vstd!std_specs.convert.impl&%14.from_spec. FuelId)
(declare-const fuel%vstd!std_specs.convert.impl&%15.obeys_from_spec. FuelId)
(declare-const fuel%vstd!std_specs.convert.impl&%15.from_spec. FuelId)
(declare-const fuel%vstd!std_specs.convert.impl&%16.obeys_from_spec. FuelId)
(declare-const fuel%vstd!std_specs.convert.impl&%16.from_spec. FuelId)
(declare-const fuel%vstd!std_specs.convert.impl&%17.obeys_from_spec. FuelId)
(declare-const fuel%vstd!std_specs.convert.impl&%17.from_spec. FuelId)
(declare-const fuel%vstd!std_specs.convert.impl&%18.obeys_from_spec. FuelId)
(declare-const fuel%vstd!std_specs.convert.impl&%18.from_spec. FuelId)
(declare-const fuel%vstd!std_specs.convert.impl&%19.obeys_from_spec. FuelId)
(declare-const fuel%vstd!std_specs.convert.impl&%19.from_spec. FuelId)
(declare-const fuel%vstd!std_specs.convert.impl&%20.obeys_from_spec. FuelId)
(declare-const fuel%vstd!std_specs.convert.impl&%20.from_spec. FuelId)
(declare-const fuel%vstd!std_specs.convert.impl&%21.obeys_from_spec. FuelId)
(declare-const fuel%vstd!std_specs.convert.impl&%21.from_spec. FuelId)
(declare-const fuel%vstd!std_specs.convert.impl&%22.obeys_from_spec. FuelId)
(declare-const fuel%vstd!std_specs.convert.impl&%22.from_spec. FuelId)
(declare-const fuel%vstd!std_specs.convert.impl&%23.obeys_from_spec. FuelId)
(declare-const fuel%vstd!std_specs.convert.impl&%23.from_spec. FuelId)
(declare-const fuel%vstd!std_specs.convert.impl&%24.obeys_from_spec. FuelId)
(declare-const fuel%vstd!std_specs.convert.impl&%24.from_spec. FuelId)
(declare-const fuel%vstd!std_specs.convert.impl&%25.obeys_from_spec. FuelId)
(declare-const fuel%vstd!std_specs.convert.impl&%25.from_spec. FuelId)
(declare-const fuel%vstd!std_specs.convert.impl&%26.obeys_from_spec. FuelId)
(declare-const fuel%vstd!std_specs.convert.impl&%26.from_spec. FuelId)
(declare-const fuel%vstd!std_specs.convert.impl&%27.obeys_from_spec. FuelId)
(declare-const fuel%vstd!std_specs.convert.impl&%27.from_spec. FuelId)
(declare-const fuel%vstd!std_specs.convert.impl&%28.obeys_from_spec. FuelId)
(declare-const fuel%vstd!std_specs.convert.impl&%28.from_spec. FuelId)
(declare-const fuel%vstd!std_specs.convert.impl&%29.obeys_from_spec. FuelId)
(declare-const fuel%vstd!std_specs.convert.impl&%29.from_spec. FuelId)
(declare-const fuel%vstd!std_specs.hash.axiom_bool_obeys_hash_table_key_model. FuelId)
(declare-const fuel%vstd!std_specs.hash.axiom_u8_obeys_hash_table_key_model. FuelId)
(declare-const fuel%vstd!std_specs.hash.axiom_u16_obeys_hash_table_key_model. FuelId)
(declare-const fuel%vstd!std_specs.hash.axiom_u32_obeys_hash_table_key_model. FuelId)
(declare-const fuel%vstd!std_specs.hash.axiom_u64_obeys_hash_table_key_model. FuelId)
(declare-const fuel%vstd!std_specs.hash.axiom_u128_obeys_hash_table_key_model. FuelId)
(declare-const fuel%vstd!std_specs.hash.axiom_usize_obeys_hash_table_key_model. FuelId)
(declare-const fuel%vstd!std_specs.hash.axiom_i8_obeys_hash_table_key_model. FuelId)
(declare-const fuel%vstd!std_specs.hash.axiom_i16_obeys_hash_table_key_model. FuelId)
(declare-const fuel%vstd!std_specs.hash.axiom_i32_obeys_hash_table_key_model. FuelId)
(declare-const fuel%vstd!std_specs.hash.axiom_i64_obeys_hash_table_key_model. FuelId)
(declare-const fuel%vstd!std_specs.hash.axiom_i128_obeys_hash_table_key_model. FuelId)
(declare-const fuel%vstd!std_specs.hash.axiom_isize_obeys_hash_table_key_model. FuelId)
(declare-const fuel%vstd!std_specs.hash.axiom_box_bool_obeys_hash_table_key_model.
 FuelId
)
(declare-const fuel%vstd!std_specs.hash.axiom_box_integer_type_obeys_hash_table_key_model.
 FuelId
)
(declare-const fuel%vstd!std_specs.hash.axiom_hashmap_decreases. FuelId)
(declare-const fuel%vstd!std_specs.range.bound_as_ref. FuelId)
(declare-const fuel%vstd!std_specs.range.impl&%11.spec_start_bound. FuelId)
(declare-const fuel%vstd!std_specs.range.impl&%11.spec_end_bound. FuelId)
(declare-const fuel%vstd!std_specs.range.impl&%12.spec_start_bound. FuelId)
(declare-const fuel%vstd!std_specs.range.impl&%12.spec_end_bound. FuelId)
(declare-const fuel%vstd!std_specs.range.slice_range_start. FuelId)
(declare-const fuel%vstd!std_specs.range.slice_range_end. FuelId)
(declare-const fuel%vstd!std_specs.range.slice_range_valid. FuelId)
(declare-const fuel%vstd!std_specs.slice.impl&%0.in_bounds. FuelId)
(declare-const fuel%vstd!std_specs.slice.impl&%0.index_postcondition. FuelId)
(declare-const fuel%vstd!std_specs.slice.impl&%7.index_req. FuelId)
(declare-const fuel%vstd!std_specs.slice.impl&%8.index_req. FuelId)
(declare-const fuel%vstd!std_specs.nonzero.impl&%0.is_zero. FuelId)
(declare-const fuel%vstd!std_specs.nonzero.impl&%1.is_zero. FuelId)
(declare-const fuel%vstd!std_specs.nonzero.impl&%2.is_zero. FuelId)
(declare-const fuel%vstd!std_specs.nonzero.impl&%3.is_zero. FuelId)
(declare-const fuel%vstd!std_specs.nonzero.impl&%4.is_zero. FuelId)
(declare-const fuel%vstd!std_specs.nonzero.impl&%5.is_zero. FuelId)
(declare-const fuel%vstd!std_specs.nonzero.impl&%6.is_zero. FuelId)
(declare-const fuel%vstd!std_specs.nonzero.impl&%7.is_zero. FuelId)
(declare-const fuel%vstd!std_specs.nonzero.impl&%8.is_zero. FuelId)
(declare-const fuel%vstd!std_specs.nonzero.impl&%9.is_zero. FuelId)
(declare-const fuel%vstd!std_specs.nonzero.impl&%10.is_zero. FuelId)
(declare-const fuel%vstd!std_specs.nonzero.axiom_nonzero_is_not_zero. FuelId)
(declare-const fuel%vstd!std_specs.nonzero.nonzero_spec_get. FuelId)
(declare-const fuel%vstd!std_specs.nonzero.impl&%16.obeys_from_spec. FuelId)
(declare-const fuel%vstd!std_specs.nonzero.impl&%16.from_spec. FuelId)
(declare-const fuel%vstd!array.array_view. FuelId)
(declare-const fuel%vstd!array.impl&%0.view. FuelId)
(declare-const fuel%vstd!array.impl&%2.spec_index. FuelId)
(declare-const fuel%vstd!array.lemma_array_index. FuelId)
(declare-const fuel%vstd!array.array_len_matches_n. FuelId)
(declare-const fuel%vstd!array.axiom_spec_array_as_slice. FuelId)
(declare-const fuel%vstd!array.axiom_array_ext_equal. FuelId)
(declare-const fuel%vstd!array.axiom_array_has_resolved. FuelId)
(declare-const fuel%vstd!array.axiom_array_decreases_to_seq. FuelId)
(declare-const fuel%vstd!array.lemma_array_index_decreases. FuelId)
(declare-const fuel%vstd!function.axiom_fn_mut_call_requires. FuelId)
(declare-const fuel%vstd!function.axiom_fn_mut_call_ensures. FuelId)
(declare-const fuel%vstd!iset.lemma_iset_ext_equal. FuelId)
(declare-const fuel%vstd!iset.lemma_iset_ext_equal_deep. FuelId)
(declare-const fuel%vstd!map.impl&%0.spec_index. FuelId)
(declare-const fuel%vstd!map.axiom_map_index_decreases. FuelId)
(declare-const fuel%vstd!map.axiom_map_decreases_to_entry. FuelId)
(declare-const fuel%vstd!map.axiom_map_ext_equal. FuelId)
(declare-const fuel%vstd!map.axiom_map_ext_equal_deep. FuelId)
(declare-const fuel%vstd!map_lib.impl&%0.contains_key. FuelId)
(declare-const fuel%vstd!raw_ptr.impl&%3.view. FuelId)
(declare-const fuel%vstd!raw_ptr.ptrs_mut_eq. FuelId)
(declare-const fuel%vstd!raw_ptr.ptrs_mut_eq_sized. FuelId)
(declare-const fuel%vstd!seq.impl&%2.spec_index. FuelId)
(declare-const fuel%vstd!seq.impl&%2.spec_add. FuelId)
(declare-const fuel%vstd!seq.lemma_seq_index_decreases. FuelId)
(declare-const fuel%vstd!seq.lemma_seq_subrange_decreases. FuelId)
(declare-const fuel%vstd!seq.lemma_seq_empty. FuelId)
(declare-const fuel%vstd!seq.lemma_seq_new_len. FuelId)
(declare-const fuel%vstd!seq.lemma_seq_new_index. FuelId)
(declare-const fuel%vstd!seq.lemma_seq_push_len. FuelId)
(declare-const fuel%vstd!seq.lemma_seq_push_index_same. FuelId)
(declare-const fuel%vstd!seq.lemma_seq_push_index_different. FuelId)
(declare-const fuel%vstd!seq.lemma_seq_ext_equal. FuelId)
(declare-const fuel%vstd!seq.lemma_seq_ext_equal_deep. FuelId)
(declare-const fuel%vstd!seq.lemma_seq_subrange_len. FuelId)
(declare-const fuel%vstd!seq.lemma_seq_subrange_index. FuelId)
(declare-const fuel%vstd!seq.lemma_seq_two_subranges_index. FuelId)
(declare-const fuel%vstd!seq.lemma_seq_add_len. FuelId)
(declare-const fuel%vstd!seq.lemma_seq_add_index1. FuelId)
(declare-const fuel%vstd!seq.lemma_seq_add_index2. FuelId)
(declare-const fuel%vstd!seq_lib.impl&%0.add_empty_left. FuelId)
(declare-const fuel%vstd!seq_lib.impl&%0.add_empty_right. FuelId)
(declare-const fuel%vstd!seq_lib.impl&%0.push_distributes_over_add. FuelId)
(declare-const fuel%vstd!seq_lib.impl&%0.drop_first. FuelId)
(declare-const fuel%vstd!set.Set.contains. FuelId)
(declare-const fuel%vstd!set.axiom_set_ext_equal. FuelId)
(declare-const fuel%vstd!set.axiom_set_ext_equal_deep. FuelId)
(declare-const fuel%vstd!set.axiom_set_decreases_to_member. FuelId)
(declare-const fuel%vstd!slice.impl&%2.spec_index. FuelId)
(declare-const fuel%vstd!slice.axiom_spec_len. FuelId)
(declare-const fuel%vstd!slice.len%returns_clause_autospec. FuelId)
(declare-const fuel%vstd!slice.axiom_slice_ext_equal. FuelId)
(declare-const fuel%vstd!slice.axiom_slice_has_resolved. FuelId)
(declare-const fuel%vstd!slice.axiom_slice_decreases_to_seq. FuelId)
(declare-const fuel%vstd!slice.lemma_slice_index_decreases. FuelId)
(declare-const fuel%vstd!string.impl&%3.spec_bytes. FuelId)
(declare-const fuel%vstd!string.axiom_str_literal_len. FuelId)
(declare-const fuel%vstd!string.axiom_str_literal_get_char. FuelId)
(declare-const fuel%vstd!string.str_slice_in_bounds. FuelId)
(declare-const fuel%vstd!string.str_slice_index_postcondition. FuelId)
(declare-const fuel%vstd!string.impl&%10.in_bounds. FuelId)
(declare-const fuel%vstd!string.impl&%10.index_postcondition. FuelId)
(declare-const fuel%vstd!string.impl&%17.index_req. FuelId)
(declare-const fuel%vstd!utf8.is_leading_byte_width_1. FuelId)
(declare-const fuel%vstd!utf8.is_leading_byte_width_2. FuelId)
(declare-const fuel%vstd!utf8.is_leading_byte_width_3. FuelId)
(declare-const fuel%vstd!utf8.is_leading_byte_width_4. FuelId)
(declare-const fuel%vstd!utf8.is_continuation_byte. FuelId)
(declare-const fuel%vstd!utf8.continuation_bits. FuelId)
(declare-const fuel%vstd!utf8.leading_bits_width_1. FuelId)
(declare-const fuel%vstd!utf8.leading_bits_width_2. FuelId)
(declare-const fuel%vstd!utf8.leading_bits_width_3. FuelId)
(declare-const fuel%vstd!utf8.leading_bits_width_4. FuelId)
(declare-const fuel%vstd!utf8.codepoint_width_1. FuelId)
(declare-const fuel%vstd!utf8.codepoint_width_2. FuelId)
(declare-const fuel%vstd!utf8.codepoint_width_3. FuelId)
(declare-const fuel%vstd!utf8.codepoint_width_4. FuelId)
(declare-const fuel%vstd!utf8.valid_leading_and_continuation_bytes_first_codepoint.
 FuelId
)
(declare-const fuel%vstd!utf8.decode_first_codepoint. FuelId)
(declare-const fuel%vstd!utf8.length_of_first_codepoint. FuelId)
(declare-const fuel%vstd!utf8.not_overlong_encoding. FuelId)
(declare-const fuel%vstd!utf8.not_surrogate. FuelId)
(declare-const fuel%vstd!utf8.valid_first_scalar. FuelId)
(declare-const fuel%vstd!utf8.length_of_first_scalar. FuelId)
(declare-const fuel%vstd!utf8.pop_first_scalar. FuelId)
(declare-const fuel%vstd!utf8.valid_utf8. FuelId)
(declare-const fuel%vstd!utf8.has_width_1_encoding. FuelId)
(declare-const fuel%vstd!utf8.has_width_2_encoding. FuelId)
(declare-const fuel%vstd!utf8.has_width_3_encoding. FuelId)
(declare-const fuel%vstd!utf8.has_width_4_encoding. FuelId)
(declare-const fuel%vstd!utf8.is_scalar. FuelId)
(declare-const fuel%vstd!utf8.leading_byte_width_1. FuelId)
(declare-const fuel%vstd!utf8.leading_byte_width_2. FuelId)
(declare-const fuel%vstd!utf8.leading_byte_width_3. FuelId)
(declare-const fuel%vstd!utf8.leading_byte_width_4. FuelId)
(declare-const fuel%vstd!utf8.last_continuation_byte. FuelId)
(declare-const fuel%vstd!utf8.second_last_continuation_byte. FuelId)
(declare-const fuel%vstd!utf8.third_last_continuation_byte. FuelId)
(declare-const fuel%vstd!utf8.encode_scalar. FuelId)
(declare-const fuel%vstd!utf8.encode_utf8. FuelId)
(declare-const fuel%vstd!utf8.is_char_boundary. FuelId)
(declare-const fuel%vstd!view.impl&%0.view. FuelId)
(declare-const fuel%vstd!view.impl&%2.view. FuelId)
(declare-const fuel%vstd!view.impl&%4.view. FuelId)
(declare-const fuel%vstd!view.impl&%6.view. FuelId)
(declare-const fuel%vstd!view.impl&%16.view. FuelId)
(declare-const fuel%vstd!view.impl&%18.view. FuelId)
(declare-const fuel%vstd!view.impl&%20.view. FuelId)
(declare-const fuel%vstd!view.impl&%22.view. FuelId)
(declare-const fuel%vstd!view.impl&%24.view. FuelId)
(declare-const fuel%vstd!view.impl&%26.view. FuelId)
(declare-const fuel%vstd!view.impl&%28.view. FuelId)
(declare-const fuel%vstd!view.impl&%30.view. FuelId)
(declare-const fuel%vstd!view.impl&%32.view. FuelId)
(declare-const fuel%vstd!view.impl&%34.view. FuelId)
(declare-const fuel%vstd!view.impl&%36.view. FuelId)
(declare-const fuel%vstd!view.impl&%38.view. FuelId)
(declare-const fuel%vstd!view.impl&%40.view. FuelId)
(declare-const fuel%vstd!view.impl&%42.view. FuelId)
(declare-const fuel%vstd!view.impl&%44.view. FuelId)
(declare-const fuel%vstd!view.impl&%48.view. FuelId)
(declare-const fuel%scratch_sign_b!LF. FuelId)
(declare-const fuel%vstd!array.group_array_axioms. FuelId)
(declare-const fuel%vstd!function.group_function_axioms. FuelId)
(declare-const fuel%vstd!imap.group_imap_lemmas. FuelId)
(declare-const fuel%vstd!iset.group_iset_lemmas. FuelId)
(declare-const fuel%vstd!laws_cmp.group_laws_cmp. FuelId)
(declare-const fuel%vstd!laws_eq.bool_laws.group_laws_eq. FuelId)
(declare-const fuel%vstd!laws_eq.u8_laws.group_laws_eq. FuelId)
(declare-const fuel%vstd!laws_eq.i8_laws.group_laws_eq. FuelId)
(declare-const fuel%vstd!laws_eq.u16_laws.group_laws_eq. FuelId)
(declare-const fuel%vstd!laws_eq.i16_laws.group_laws_eq. FuelId)
(declare-const fuel%vstd!laws_eq.u32_laws.group_laws_eq. FuelId)
(declare-const fuel%vstd!laws_eq.i32_laws.group_laws_eq. FuelId)
(declare-const fuel%vstd!laws_eq.u64_laws.group_laws_eq. FuelId)
(declare-const fuel%vstd!laws_eq.i64_laws.group_laws_eq. FuelId)
(declare-const fuel%vstd!laws_eq.u128_laws.group_laws_eq. FuelId)
(declare-const fuel%vstd!laws_eq.i128_laws.group_laws_eq. FuelId)
(declare-const fuel%vstd!laws_eq.usize_laws.group_laws_eq. FuelId)
(declare-const fuel%vstd!laws_eq.isize_laws.group_laws_eq. FuelId)
(declare-const fuel%vstd!laws_eq.tuple_1_laws.group_laws_eq. FuelId)
(declare-const fuel%vstd!laws_eq.tuple_2_laws.group_laws_eq. FuelId)
(declare-const fuel%vstd!laws_eq.tuple_3_laws.group_laws_eq. FuelId)
(declare-const fuel%vstd!laws_eq.tuple_4_laws.group_laws_eq. FuelId)
(declare-const fuel%vstd!laws_eq.tuple_5_laws.group_laws_eq. FuelId)
(declare-const fuel%vstd!laws_eq.tuple_6_laws.group_laws_eq. FuelId)
(declare-const fuel%vstd!laws_eq.tuple_7_laws.group_laws_eq. FuelId)
(declare-const fuel%vstd!laws_eq.tuple_8_laws.group_laws_eq. FuelId)
(declare-const fuel%vstd!laws_eq.tuple_9_laws.group_laws_eq. FuelId)
(declare-const fuel%vstd!laws_eq.tuple_10_laws.group_laws_eq. FuelId)
(declare-const fuel%vstd!laws_eq.tuple_11_laws.group_laws_eq. FuelId)
(declare-const fuel%vstd!laws_eq.tuple_12_laws.group_laws_eq. FuelId)
(declare-const fuel%vstd!laws_eq.group_laws_eq. FuelId)
(declare-const fuel%vstd!layout.group_align_properties. FuelId)
(declare-const fuel%vstd!layout.group_layout_axioms. FuelId)
(declare-const fuel%vstd!map.group_map_lemmas. FuelId)
(declare-const fuel%vstd!multiset.group_multiset_axioms. FuelId)
(declare-const fuel%vstd!mut_ref.group_mut_ref_axioms. FuelId)
(declare-const fuel%vstd!raw_ptr.group_raw_ptr_axioms. FuelId)
(declare-const fuel%vstd!seq.group_seq_lemmas. FuelId)
(declare-const fuel%vstd!seq_lib.group_filter_ensures. FuelId)
(declare-const fuel%vstd!seq_lib.group_seq_lib_default. FuelId)
(declare-const fuel%vstd!set.group_set_lemmas. FuelId)
(declare-const fuel%vstd!set_lib.group_set_lib_default. FuelId)
(declare-const fuel%vstd!slice.group_slice_axioms. FuelId)
(declare-const fuel%vstd!string.group_string_axioms. FuelId)
(declare-const fuel%vstd!std_specs.bits.group_bits_axioms. FuelId)
(declare-const fuel%vstd!std_specs.control_flow.group_control_flow_axioms. FuelId)
(declare-const fuel%vstd!std_specs.fmt.group_fmt_axioms. FuelId)
(declare-const fuel%vstd!std_specs.iter.group_iter_axioms. FuelId)
(declare-const fuel%vstd!std_specs.manually_drop.group_manually_drop_axioms. FuelId)
(declare-const fuel%vstd!std_specs.btree.group_btree_axioms. FuelId)
(declare-const fuel%vstd!std_specs.hash.group_hash_axioms. FuelId)
(declare-const fuel%vstd!std_specs.range.group_range_axioms. FuelId)
(declare-const fuel%vstd!std_specs.vec.group_vec_axioms. FuelId)
(declare-const fuel%vstd!std_specs.vecdeque.group_vec_dequeue_axioms. FuelId)
(declare-const fuel%vstd!std_specs.nonzero.group_nonzero_axioms. FuelId)
(declare-const fuel%vstd!group_vstd_default. FuelId)
(assert
 (distinct fuel%vstd!std_specs.convert.impl&%6.obeys_from_spec. fuel%vstd!std_specs.convert.impl&%6.from_spec.
  fuel%vstd!std_specs.convert.impl&%7.obeys_from_spec. fuel%vstd!std_specs.convert.impl&%7.from_spec.
  fuel%vstd!std_specs.convert.impl&%8.obeys_from_spec. fuel%vstd!std_specs.convert.impl&%8.from_spec.
  fuel%vstd!std_specs.convert.impl&%9.obeys_from_spec. fuel%vstd!std_specs.convert.impl&%9.from_spec.
  fuel%vstd!std_specs.convert.impl&%10.obeys_from_spec. fuel%vstd!std_specs.convert.impl&%10.from_spec.
  fuel%vstd!std_specs.convert.impl&%11.obeys_from_spec. fuel%vstd!std_specs.convert.impl&%11.from_spec.
  fuel%vstd!std_specs.convert.impl&%12.obeys_from_spec. fuel%vstd!std_specs.convert.impl&%12.from_spec.
  fuel%vstd!std_specs.convert.impl&%13.obeys_from_spec. fuel%vstd!std_specs.convert.impl&%13.from_spec.
  fuel%vstd!std_specs.convert.impl&%14.obeys_from_spec. fuel%vstd!std_specs.convert.impl&%14.from_spec.
  fuel%vstd!std_specs.convert.impl&%15.obeys_from_spec. fuel%vstd!std_specs.convert.impl&%15.from_spec.
  fuel%vstd!std_specs.convert.impl&%16.obeys_from_spec. fuel%vstd!std_specs.convert.impl&%16.from_spec.
  fuel%vstd!std_specs.convert.impl&%17.obeys_from_spec. fuel%vstd!std_specs.convert.impl&%17.from_spec.
  fuel%vstd!std_specs.convert.impl&%18.obeys_from_spec. fuel%vstd!std_specs.convert.impl&%18.from_spec.
  fuel%vstd!std_specs.convert.impl&%19.obeys_from_spec. fuel%vstd!std_specs.convert.impl&%19.from_spec.
  fuel%vstd!std_specs.convert.impl&%20.obeys_from_spec. fuel%vstd!std_specs.convert.impl&%20.from_spec.
  fuel%vstd!std_specs.convert.impl&%21.obeys_from_spec. fuel%vstd!std_specs.convert.impl&%21.from_spec.
  fuel%vstd!std_specs.convert.impl&%22.obeys_from_spec. fuel%vstd!std_specs.convert.impl&%22.from_spec.
  fuel%vstd!std_specs.convert.impl&%23.obeys_from_spec. fuel%vstd!std_specs.convert.impl&%23.from_spec.
  fuel%vstd!std_specs.convert.impl&%24.obeys_from_spec. fuel%vstd!std_specs.convert.impl&%24.from_spec.
  fuel%vstd!std_specs.convert.impl&%25.obeys_from_spec. fuel%vstd!std_specs.convert.impl&%25.from_spec.
  fuel%vstd!std_specs.convert.impl&%26.obeys_from_spec. fuel%vstd!std_specs.convert.impl&%26.from_spec.
  fuel%vstd!std_specs.convert.impl&%27.obeys_from_spec. fuel%vstd!std_specs.convert.impl&%27.from_spec.
  fuel%vstd!std_specs.convert.impl&%28.obeys_from_spec. fuel%vstd!std_specs.convert.impl&%28.from_spec.
  fuel%vstd!std_specs.convert.impl&%29.obeys_from_spec. fuel%vstd!std_specs.convert.impl&%29.from_spec.
  fuel%vstd!std_specs.hash.axiom_bool_obeys_hash_table_key_model. fuel%vstd!std_specs.hash.axiom_u8_obeys_hash_table_key_model.
  fuel%vstd!std_specs.hash.axiom_u16_obeys_hash_table_key_model. fuel%vstd!std_specs.hash.axiom_u32_obeys_hash_table_key_model.
  fuel%vstd!std_specs.hash.axiom_u64_obeys_hash_table_key_model. fuel%vstd!std_specs.hash.axiom_u128_obeys_hash_table_key_model.
  fuel%vstd!std_specs.hash.axiom_usize_obeys_hash_table_key_model. fuel%vstd!std_specs.hash.axiom_i8_obeys_hash_table_key_model.
  fuel%vstd!std_specs.hash.axiom_i16_obeys_hash_table_key_model. fuel%vstd!std_specs.hash.axiom_i32_obeys_hash_table_key_model.
  fuel%vstd!std_specs.hash.axiom_i64_obeys_hash_table_key_model. fuel%vstd!std_specs.hash.axiom_i128_obeys_hash_table_key_model.
  fuel%vstd!std_specs.hash.axiom_isize_obeys_hash_table_key_model. fuel%vstd!std_specs.hash.axiom_box_bool_obeys_hash_table_key_model.
  fuel%vstd!std_specs.hash.axiom_box_integer_type_obeys_hash_table_key_model. fuel%vstd!std_specs.hash.axiom_hashmap_decreases.
  fuel%vstd!std_specs.range.bound_as_ref. fuel%vstd!std_specs.range.impl&%11.spec_start_bound.
  fuel%vstd!std_specs.range.impl&%11.spec_end_bound. fuel%vstd!std_specs.range.impl&%12.spec_start_bound.
  fuel%vstd!std_specs.range.impl&%12.spec_end_bound. fuel%vstd!std_specs.range.slice_range_start.
  fuel%vstd!std_specs.range.slice_range_end. fuel%vstd!std_specs.range.slice_range_valid.
  fuel%vstd!std_specs.slice.impl&%0.in_bounds. fuel%vstd!std_specs.slice.impl&%0.index_postcondition.
  fuel%vstd!std_specs.slice.impl&%7.index_req. fuel%vstd!std_specs.slice.impl&%8.index_req.
  fuel%vstd!std_specs.nonzero.impl&%0.is_zero. fuel%vstd!std_specs.nonzero.impl&%1.is_zero.
  fuel%vstd!std_specs.nonzero.impl&%2.is_zero. fuel%vstd!std_specs.nonzero.impl&%3.is_zero.
  fuel%vstd!std_specs.nonzero.impl&%4.is_zero. fuel%vstd!std_specs.nonzero.impl&%5.is_zero.
  fuel%vstd!std_specs.nonzero.impl&%6.is_zero. fuel%vstd!std_specs.nonzero.impl&%7.is_zero.
  fuel%vstd!std_specs.nonzero.impl&%8.is_zero. fuel%vstd!std_specs.nonzero.impl&%9.is_zero.
  fuel%vstd!std_specs.nonzero.impl&%10.is_zero. fuel%vstd!std_specs.nonzero.axiom_nonzero_is_not_zero.
  fuel%vstd!std_specs.nonzero.nonzero_spec_get. fuel%vstd!std_specs.nonzero.impl&%16.obeys_from_spec.
  fuel%vstd!std_specs.nonzero.impl&%16.from_spec. fuel%vstd!array.array_view. fuel%vstd!array.impl&%0.view.
  fuel%vstd!array.impl&%2.spec_index. fuel%vstd!array.lemma_array_index. fuel%vstd!array.array_len_matches_n.
  fuel%vstd!array.axiom_spec_array_as_slice. fuel%vstd!array.axiom_array_ext_equal.
  fuel%vstd!array.axiom_array_has_resolved. fuel%vstd!array.axiom_array_decreases_to_seq.
  fuel%vstd!array.lemma_array_index_decreases. fuel%vstd!function.axiom_fn_mut_call_requires.
  fuel%vstd!function.axiom_fn_mut_call_ensures. fuel%vstd!iset.lemma_iset_ext_equal.
  fuel%vstd!iset.lemma_iset_ext_equal_deep. fuel%vstd!map.impl&%0.spec_index. fuel%vstd!map.axiom_map_index_decreases.
  fuel%vstd!map.axiom_map_decreases_to_entry. fuel%vstd!map.axiom_map_ext_equal. fuel%vstd!map.axiom_map_ext_equal_deep.
  fuel%vstd!map_lib.impl&%0.contains_key. fuel%vstd!raw_ptr.impl&%3.view. fuel%vstd!raw_ptr.ptrs_mut_eq.
  fuel%vstd!raw_ptr.ptrs_mut_eq_sized. fuel%vstd!seq.impl&%2.spec_index. fuel%vstd!seq.impl&%2.spec_add.
  fuel%vstd!seq.lemma_seq_index_decreases. fuel%vstd!seq.lemma_seq_subrange_decreases.
  fuel%vstd!seq.lemma_seq_empty. fuel%vstd!seq.lemma_seq_new_len. fuel%vstd!seq.lemma_seq_new_index.
  fuel%vstd!seq.lemma_seq_push_len. fuel%vstd!seq.lemma_seq_push_index_same. fuel%vstd!seq.lemma_seq_push_index_different.
  fuel%vstd!seq.lemma_seq_ext_equal. fuel%vstd!seq.lemma_seq_ext_equal_deep. fuel%vstd!seq.lemma_seq_subrange_len.
  fuel%vstd!seq.lemma_seq_subrange_index. fuel%vstd!seq.lemma_seq_two_subranges_index.
  fuel%vstd!seq.lemma_seq_add_len. fuel%vstd!seq.lemma_seq_add_index1. fuel%vstd!seq.lemma_seq_add_index2.
  fuel%vstd!seq_lib.impl&%0.add_empty_left. fuel%vstd!seq_lib.impl&%0.add_empty_right.
  fuel%vstd!seq_lib.impl&%0.push_distributes_over_add. fuel%vstd!seq_lib.impl&%0.drop_first.
  fuel%vstd!set.Set.contains. fuel%vstd!set.axiom_set_ext_equal. fuel%vstd!set.axiom_set_ext_equal_deep.
  fuel%vstd!set.axiom_set_decreases_to_member. fuel%vstd!slice.impl&%2.spec_index.
  fuel%vstd!slice.axiom_spec_len. fuel%vstd!slice.len%returns_clause_autospec. fuel%vstd!slice.axiom_slice_ext_equal.
  fuel%vstd!slice.axiom_slice_has_resolved. fuel%vstd!slice.axiom_slice_decreases_to_seq.
  fuel%vstd!slice.lemma_slice_index_decreases. fuel%vstd!string.impl&%3.spec_bytes.
  fuel%vstd!string.axiom_str_literal_len. fuel%vstd!string.axiom_str_literal_get_char.
  fuel%vstd!string.str_slice_in_bounds. fuel%vstd!string.str_slice_index_postcondition.
  fuel%vstd!string.impl&%10.in_bounds. fuel%vstd!string.impl&%10.index_postcondition.
  fuel%vstd!string.impl&%17.index_req. fuel%vstd!utf8.is_leading_byte_width_1. fuel%vstd!utf8.is_leading_byte_width_2.
  fuel%vstd!utf8.is_leading_byte_width_3. fuel%vstd!utf8.is_leading_byte_width_4. fuel%vstd!utf8.is_continuation_byte.
  fuel%vstd!utf8.continuation_bits. fuel%vstd!utf8.leading_bits_width_1. fuel%vstd!utf8.leading_bits_width_2.
  fuel%vstd!utf8.leading_bits_width_3. fuel%vstd!utf8.leading_bits_width_4. fuel%vstd!utf8.codepoint_width_1.
  fuel%vstd!utf8.codepoint_width_2. fuel%vstd!utf8.codepoint_width_3. fuel%vstd!utf8.codepoint_width_4.
  fuel%vstd!utf8.valid_leading_and_continuation_bytes_first_codepoint. fuel%vstd!utf8.decode_first_codepoint.
  fuel%vstd!utf8.length_of_first_codepoint. fuel%vstd!utf8.not_overlong_encoding. fuel%vstd!utf8.not_surrogate.
  fuel%vstd!utf8.valid_first_scalar. fuel%vstd!utf8.length_of_first_scalar. fuel%vstd!utf8.pop_first_scalar.
  fuel%vstd!utf8.valid_utf8. fuel%vstd!utf8.has_width_1_encoding. fuel%vstd!utf8.has_width_2_encoding.
  fuel%vstd!utf8.has_width_3_encoding. fuel%vstd!utf8.has_width_4_encoding. fuel%vstd!utf8.is_scalar.
  fuel%vstd!utf8.leading_byte_width_1. fuel%vstd!utf8.leading_byte_width_2. fuel%vstd!utf8.leading_byte_width_3.
  fuel%vstd!utf8.leading_byte_width_4. fuel%vstd!utf8.last_continuation_byte. fuel%vstd!utf8.second_last_continuation_byte.
  fuel%vstd!utf8.third_last_continuation_byte. fuel%vstd!utf8.encode_scalar. fuel%vstd!utf8.encode_utf8.
  fuel%vstd!utf8.is_char_boundary. fuel%vstd!view.impl&%0.view. fuel%vstd!view.impl&%2.view.
  fuel%vstd!view.impl&%4.view. fuel%vstd!view.impl&%6.view. fuel%vstd!view.impl&%16.view.
  fuel%vstd!view.impl&%18.view. fuel%vstd!view.impl&%20.view. fuel%vstd!view.impl&%22.view.
  fuel%vstd!view.impl&%24.view. fuel%vstd!view.impl&%26.view. fuel%vstd!view.impl&%28.view.
  fuel%vstd!view.impl&%30.view. fuel%vstd!view.impl&%32.view. fuel%vstd!view.impl&%34.view.
  fuel%vstd!view.impl&%36.view. fuel%vstd!view.impl&%38.view. fuel%vstd!view.impl&%40.view.
  fuel%vstd!view.impl&%42.view. fuel%vstd!view.impl&%44.view. fuel%vstd!view.impl&%48.view.
  fuel%scratch_sign_b!LF. fuel%vstd!array.group_array_axioms. fuel%vstd!function.group_function_axioms.
  fuel%vstd!imap.group_imap_lemmas. fuel%vstd!iset.group_iset_lemmas. fuel%vstd!laws_cmp.group_laws_cmp.
  fuel%vstd!laws_eq.bool_laws.group_laws_eq. fuel%vstd!laws_eq.u8_laws.group_laws_eq.
  fuel%vstd!laws_eq.i8_laws.group_laws_eq. fuel%vstd!laws_eq.u16_laws.group_laws_eq.
  fuel%vstd!laws_eq.i16_laws.group_laws_eq. fuel%vstd!laws_eq.u32_laws.group_laws_eq.
  fuel%vstd!laws_eq.i32_laws.group_laws_eq. fuel%vstd!laws_eq.u64_laws.group_laws_eq.
  fuel%vstd!laws_eq.i64_laws.group_laws_eq. fuel%vstd!laws_eq.u128_laws.group_laws_eq.
  fuel%vstd!laws_eq.i128_laws.group_laws_eq. fuel%vstd!laws_eq.usize_laws.group_laws_eq.
  fuel%vstd!laws_eq.isize_laws.group_laws_eq. fuel%vstd!laws_eq.tuple_1_laws.group_laws_eq.
  fuel%vstd!laws_eq.tuple_2_laws.group_laws_eq. fuel%vstd!laws_eq.tuple_3_laws.group_laws_eq.
  fuel%vstd!laws_eq.tuple_4_laws.group_laws_eq. fuel%vstd!laws_eq.tuple_5_laws.group_laws_eq.
  fuel%vstd!laws_eq.tuple_6_laws.group_laws_eq. fuel%vstd!laws_eq.tuple_7_laws.group_laws_eq.
  fuel%vstd!laws_eq.tuple_8_laws.group_laws_eq. fuel%vstd!laws_eq.tuple_9_laws.group_laws_eq.
  fuel%vstd!laws_eq.tuple_10_laws.group_laws_eq. fuel%vstd!laws_eq.tuple_11_laws.group_laws_eq.
  fuel%vstd!laws_eq.tuple_12_laws.group_laws_eq. fuel%vstd!laws_eq.group_laws_eq. fuel%vstd!layout.group_align_properties.
  fuel%vstd!layout.group_layout_axioms. fuel%vstd!map.group_map_lemmas. fuel%vstd!multiset.group_multiset_axioms.
  fuel%vstd!mut_ref.group_mut_ref_axioms. fuel%vstd!raw_ptr.group_raw_ptr_axioms. fuel%vstd!seq.group_seq_lemmas.
  fuel%vstd!seq_lib.group_filter_ensures. fuel%vstd!seq_lib.group_seq_lib_default.
  fuel%vstd!set.group_set_lemmas. fuel%vstd!set_lib.group_set_lib_default. fuel%vstd!slice.group_slice_axioms.
  fuel%vstd!string.group_string_axioms. fuel%vstd!std_specs.bits.group_bits_axioms.
  fuel%vstd!std_specs.control_flow.group_control_flow_axioms. fuel%vstd!std_specs.fmt.group_fmt_axioms.
  fuel%vstd!std_specs.iter.group_iter_axioms. fuel%vstd!std_specs.manually_drop.group_manually_drop_axioms.
  fuel%vstd!std_specs.btree.group_btree_axioms. fuel%vstd!std_specs.hash.group_hash_axioms.
  fuel%vstd!std_specs.range.group_range_axioms. fuel%vstd!std_specs.vec.group_vec_axioms.
  fuel%vstd!std_specs.vecdeque.group_vec_dequeue_axioms. fuel%vstd!std_specs.nonzero.group_nonzero_axioms.
  fuel%vstd!group_vstd_default.
))
(assert
 (=>
  (fuel_bool_default fuel%vstd!array.group_array_axioms.)
  (and
   (fuel_bool_default fuel%vstd!array.array_len_matches_n.)
   (fuel_bool_default fuel%vstd!array.lemma_array_index.)
   (fuel_bool_default fuel%vstd!array.axiom_spec_array_as_slice.)
   (fuel_bool_default fuel%vstd!array.axiom_array_ext_equal.)
   (fuel_bool_default fuel%vstd!array.axiom_array_has_resolved.)
   (fuel_bool_default fuel%vstd!array.axiom_array_decreases_to_seq.)
   (fuel_bool_default fuel%vstd!array.lemma_array_index_decreases.)
)))
(assert
 (=>
  (fuel_bool_default fuel%vstd!function.group_function_axioms.)
  (and
   (fuel_bool_default fuel%vstd!function.axiom_fn_mut_call_requires.)
   (fuel_bool_default fuel%vstd!function.axiom_fn_mut_call_ensures.)
)))
(assert
 (=>
  (fuel_bool_default fuel%vstd!iset.group_iset_lemmas.)
  (and
   (fuel_bool_default fuel%vstd!iset.lemma_iset_ext_equal.)
   (fuel_bool_default fuel%vstd!iset.lemma_iset_ext_equal_deep.)
)))
(assert
 (=>
  (fuel_bool_default fuel%vstd!laws_eq.group_laws_eq.)
  (and
   (fuel_bool_default fuel%vstd!laws_eq.bool_laws.group_laws_eq.)
   (fuel_bool_default fuel%vstd!laws_eq.u8_laws.group_laws_eq.)
   (fuel_bool_default fuel%vstd!laws_eq.i8_laws.group_laws_eq.)
   (fuel_bool_default fuel%vstd!laws_eq.u16_laws.group_laws_eq.)
   (fuel_bool_default fuel%vstd!laws_eq.i16_laws.group_laws_eq.)
   (fuel_bool_default fuel%vstd!laws_eq.u32_laws.group_laws_eq.)
   (fuel_bool_default fuel%vstd!laws_eq.i32_laws.group_laws_eq.)
   (fuel_bool_default fuel%vstd!laws_eq.u64_laws.group_laws_eq.)
   (fuel_bool_default fuel%vstd!laws_eq.i64_laws.group_laws_eq.)
   (fuel_bool_default fuel%vstd!laws_eq.u128_laws.group_laws_eq.)
   (fuel_bool_default fuel%vstd!laws_eq.i128_laws.group_laws_eq.)
   (fuel_bool_default fuel%vstd!laws_eq.usize_laws.group_laws_eq.)
   (fuel_bool_default fuel%vstd!laws_eq.isize_laws.group_laws_eq.)
   (fuel_bool_default fuel%vstd!laws_eq.tuple_1_laws.group_laws_eq.)
   (fuel_bool_default fuel%vstd!laws_eq.tuple_2_laws.group_laws_eq.)
   (fuel_bool_default fuel%vstd!laws_eq.tuple_3_laws.group_laws_eq.)
   (fuel_bool_default fuel%vstd!laws_eq.tuple_4_laws.group_laws_eq.)
   (fuel_bool_default fuel%vstd!laws_eq.tuple_5_laws.group_laws_eq.)
   (fuel_bool_default fuel%vstd!laws_eq.tuple_6_laws.group_laws_eq.)
   (fuel_bool_default fuel%vstd!laws_eq.tuple_7_laws.group_laws_eq.)
   (fuel_bool_default fuel%vstd!laws_eq.tuple_8_laws.group_laws_eq.)
   (fuel_bool_default fuel%vstd!laws_eq.tuple_9_laws.group_laws_eq.)
   (fuel_bool_default fuel%vstd!laws_eq.tuple_10_laws.group_laws_eq.)
   (fuel_bool_default fuel%vstd!laws_eq.tuple_11_laws.group_laws_eq.)
   (fuel_bool_default fuel%vstd!laws_eq.tuple_12_laws.group_laws_eq.)
)))
(assert
 (=>
  (fuel_bool_default fuel%vstd!layout.group_layout_axioms.)
  (fuel_bool_default fuel%vstd!layout.group_align_properties.)
))
(assert
 (=>
  (fuel_bool_default fuel%vstd!map.group_map_lemmas.)
  (and
   (fuel_bool_default fuel%vstd!map.axiom_map_index_decreases.)
   (fuel_bool_default fuel%vstd!map.axiom_map_decreases_to_entry.)
   (fuel_bool_default fuel%vstd!map.axiom_map_ext_equal.)
   (fuel_bool_default fuel%vstd!map.axiom_map_ext_equal_deep.)
)))
(assert
 (=>
  (fuel_bool_default fuel%vstd!raw_ptr.group_raw_ptr_axioms.)
  (and
   (fuel_bool_default fuel%vstd!raw_ptr.ptrs_mut_eq.)
   (fuel_bool_default fuel%vstd!raw_ptr.ptrs_mut_eq_sized.)
)))
(assert
 (=>
  (fuel_bool_default fuel%vstd!seq.group_seq_lemmas.)
  (and
   (fuel_bool_default fuel%vstd!seq.lemma_seq_index_decreases.)
   (fuel_bool_default fuel%vstd!seq.lemma_seq_subrange_decreases.)
   (fuel_bool_default fuel%vstd!seq.lemma_seq_empty.)
   (fuel_bool_default fuel%vstd!seq.lemma_seq_new_len.)
   (fuel_bool_default fuel%vstd!seq.lemma_seq_new_index.)
   (fuel_bool_default fuel%vstd!seq.lemma_seq_push_len.)
   (fuel_bool_default fuel%vstd!seq.lemma_seq_push_index_same.)
   (fuel_bool_default fuel%vstd!seq.lemma_seq_push_index_different.)
   (fuel_bool_default fuel%vstd!seq.lemma_seq_ext_equal.)
   (fuel_bool_default fuel%vstd!seq.lemma_seq_ext_equal_deep.)
   (fuel_bool_default fuel%vstd!seq.lemma_seq_subrange_len.)
   (fuel_bool_default fuel%vstd!seq.lemma_seq_subrange_index.)
   (fuel_bool_default fuel%vstd!seq.lemma_seq_two_subranges_index.)
   (fuel_bool_default fuel%vstd!seq.lemma_seq_add_len.)
   (fuel_bool_default fuel%vstd!seq.lemma_seq_add_index1.)
   (fuel_bool_default fuel%vstd!seq.lemma_seq_add_index2.)
)))
(assert
 (=>
  (fuel_bool_default fuel%vstd!seq_lib.group_seq_lib_default.)
  (and
   (fuel_bool_default fuel%vstd!seq_lib.group_filter_ensures.)
   (fuel_bool_default fuel%vstd!seq_lib.impl&%0.add_empty_left.)
   (fuel_bool_default fuel%vstd!seq_lib.impl&%0.add_empty_right.)
   (fuel_bool_default fuel%vstd!seq_lib.impl&%0.push_distributes_over_add.)
)))
(assert
 (=>
  (fuel_bool_default fuel%vstd!set.group_set_lemmas.)
  (and
   (fuel_bool_default fuel%vstd!set.axiom_set_ext_equal.)
   (fuel_bool_default fuel%vstd!set.axiom_set_ext_equal_deep.)
   (fuel_bool_default fuel%vstd!set.axiom_set_decreases_to_member.)
)))
(assert
 (=>
  (fuel_bool_default fuel%vstd!slice.group_slice_axioms.)
  (and
   (fuel_bool_default fuel%vstd!slice.axiom_spec_len.)
   (fuel_bool_default fuel%vstd!slice.axiom_slice_ext_equal.)
   (fuel_bool_default fuel%vstd!slice.axiom_slice_has_resolved.)
   (fuel_bool_default fuel%vstd!slice.axiom_slice_decreases_to_seq.)
   (fuel_bool_default fuel%vstd!slice.lemma_slice_index_decreases.)
)))
(assert
 (=>
  (fuel_bool_default fuel%vstd!string.group_string_axioms.)
  (and
   (fuel_bool_default fuel%vstd!string.axiom_str_literal_len.)
   (fuel_bool_default fuel%vstd!string.axiom_str_literal_get_char.)
)))
(assert
 (=>
  (fuel_bool_default fuel%vstd!std_specs.hash.group_hash_axioms.)
  (and
   (fuel_bool_default fuel%vstd!std_specs.hash.axiom_bool_obeys_hash_table_key_model.)
   (fuel_bool_default fuel%vstd!std_specs.hash.axiom_u8_obeys_hash_table_key_model.)
   (fuel_bool_default fuel%vstd!std_specs.hash.axiom_u16_obeys_hash_table_key_model.)
   (fuel_bool_default fuel%vstd!std_specs.hash.axiom_u32_obeys_hash_table_key_model.)
   (fuel_bool_default fuel%vstd!std_specs.hash.axiom_u64_obeys_hash_table_key_model.)
   (fuel_bool_default fuel%vstd!std_specs.hash.axiom_u128_obeys_hash_table_key_model.)
   (fuel_bool_default fuel%vstd!std_specs.hash.axiom_usize_obeys_hash_table_key_model.)
   (fuel_bool_default fuel%vstd!std_specs.hash.axiom_i8_obeys_hash_table_key_model.)
   (fuel_bool_default fuel%vstd!std_specs.hash.axiom_i16_obeys_hash_table_key_model.)
   (fuel_bool_default fuel%vstd!std_specs.hash.axiom_i32_obeys_hash_table_key_model.)
   (fuel_bool_default fuel%vstd!std_specs.hash.axiom_i64_obeys_hash_table_key_model.)
   (fuel_bool_default fuel%vstd!std_specs.hash.axiom_i128_obeys_hash_table_key_model.)
   (fuel_bool_default fuel%vstd!std_specs.hash.axiom_isize_obeys_hash_table_key_model.)
   (fuel_bool_default fuel%vstd!std_specs.hash.axiom_box_bool_obeys_hash_table_key_model.)
   (fuel_bool_default fuel%vstd!std_specs.hash.axiom_box_integer_type_obeys_hash_table_key_model.)
   (fuel_bool_default fuel%vstd!std_specs.hash.axiom_hashmap_decreases.)
)))
(assert
 (=>
  (fuel_bool_default fuel%vstd!std_specs.nonzero.group_nonzero_axioms.)
  (fuel_bool_default fuel%vstd!std_specs.nonzero.axiom_nonzero_is_not_zero.)
))
(assert
 (fuel_bool_default fuel%vstd!group_vstd_default.)
)
(assert
 (=>
  (fuel_bool_default fuel%vstd!group_vstd_default.)
  (and
   (fuel_bool_default fuel%vstd!seq.group_seq_lemmas.)
   (fuel_bool_default fuel%vstd!seq_lib.group_seq_lib_default.)
   (fuel_bool_default fuel%vstd!map.group_map_lemmas.)
   (fuel_bool_default fuel%vstd!set.group_set_lemmas.)
   (fuel_bool_default fuel%vstd!imap.group_imap_lemmas.)
   (fuel_bool_default fuel%vstd!iset.group_iset_lemmas.)
   (fuel_bool_default fuel%vstd!set_lib.group_set_lib_default.)
   (fuel_bool_default fuel%vstd!multiset.group_multiset_axioms.)
   (fuel_bool_default fuel%vstd!function.group_function_axioms.)
   (fuel_bool_default fuel%vstd!laws_eq.group_laws_eq.)
   (fuel_bool_default fuel%vstd!laws_cmp.group_laws_cmp.)
   (fuel_bool_default fuel%vstd!slice.group_slice_axioms.)
   (fuel_bool_default fuel%vstd!array.group_array_axioms.)
   (fuel_bool_default fuel%vstd!string.group_string_axioms.)
   (fuel_bool_default fuel%vstd!raw_ptr.group_raw_ptr_axioms.)
   (fuel_bool_default fuel%vstd!layout.group_layout_axioms.)
   (fuel_bool_default fuel%vstd!mut_ref.group_mut_ref_axioms.)
   (fuel_bool_default fuel%vstd!std_specs.range.group_range_axioms.)
   (fuel_bool_default fuel%vstd!std_specs.bits.group_bits_axioms.)
   (fuel_bool_default fuel%vstd!std_specs.control_flow.group_control_flow_axioms.)
   (fuel_bool_default fuel%vstd!std_specs.fmt.group_fmt_axioms.)
   (fuel_bool_default fuel%vstd!std_specs.manually_drop.group_manually_drop_axioms.)
   (fuel_bool_default fuel%vstd!std_specs.iter.group_iter_axioms.)
   (fuel_bool_default fuel%vstd!std_specs.vec.group_vec_axioms.)
   (fuel_bool_default fuel%vstd!std_specs.vecdeque.group_vec_dequeue_axioms.)
   (fuel_bool_default fuel%vstd!std_specs.hash.group_hash_axioms.)
   (fuel_bool_default fuel%vstd!std_specs.btree.group_btree_axioms.)
   (fuel_bool_default fuel%vstd!std_specs.nonzero.group_nonzero_axioms.)
)))

;; Trait-Decls
(declare-fun tr_bound%vstd!array.ArrayAdditionalSpecFns. (Dcr Type Dcr Type) Bool)
(declare-fun tr_bound%vstd!slice.SliceAdditionalSpecFns. (Dcr Type Dcr Type) Bool)
(declare-fun tr_bound%core!slice.index.SliceIndex. (Dcr Type Dcr Type) Bool)
(declare-fun tr_bound%vstd!slice.SliceIndexSpec. (Dcr Type Dcr Type) Bool)
(declare-fun tr_bound%vstd!string.StringSliceAdditionalSpecFns. (Dcr Type) Bool)
(declare-fun tr_bound%vstd!view.View. (Dcr Type) Bool)
(declare-fun tr_bound%core!clone.Clone. (Dcr Type) Bool)
(declare-fun tr_bound%core!marker.Copy. (Dcr Type) Bool)
(declare-fun tr_bound%core!cmp.PartialEq. (Dcr Type Dcr Type) Bool)
(declare-fun tr_bound%core!cmp.Eq. (Dcr Type) Bool)
(declare-fun tr_bound%core!convert.From. (Dcr Type Dcr Type) Bool)
(declare-fun tr_bound%vstd!std_specs.convert.FromSpec. (Dcr Type Dcr Type) Bool)
(declare-fun tr_bound%core!marker.Tuple. (Dcr Type) Bool)
(declare-fun tr_bound%core!ops.function.FnOnce. (Dcr Type Dcr Type) Bool)
(declare-fun tr_bound%core!ops.function.FnMut. (Dcr Type Dcr Type) Bool)
(declare-fun tr_bound%core!ops.function.Fn. (Dcr Type Dcr Type) Bool)
(declare-fun tr_bound%core!ops.index.Index. (Dcr Type Dcr Type) Bool)
(declare-fun tr_bound%verus_builtin!Integer. (Dcr Type) Bool)
(declare-fun tr_bound%core!alloc.Allocator. (Dcr Type) Bool)
(declare-fun tr_bound%core!hash.Hash. (Dcr Type) Bool)
(declare-fun tr_bound%core!borrow.Borrow. (Dcr Type Dcr Type) Bool)
(declare-fun tr_bound%vstd!std_specs.core.IndexSpec. (Dcr Type Dcr Type) Bool)
(declare-fun tr_bound%core!hash.Hasher. (Dcr Type) Bool)
(declare-fun tr_bound%core!hash.BuildHasher. (Dcr Type) Bool)
(declare-fun tr_bound%core!ops.range.RangeBounds. (Dcr Type Dcr Type) Bool)
(declare-fun tr_bound%vstd!std_specs.range.RangeBoundsSpec. (Dcr Type Dcr Type) Bool)
(declare-fun tr_bound%core!num.nonzero.ZeroablePrimitive. (Dcr Type) Bool)
(declare-fun tr_bound%vstd!std_specs.nonzero.ZeroablePrimitiveSpec. (Dcr Type) Bool)

;; Associated-Type-Decls
(declare-fun proj%%core!slice.index.SliceIndex./Output (Dcr Type Dcr Type) Dcr)
(declare-fun proj%core!slice.index.SliceIndex./Output (Dcr Type Dcr Type) Type)
(declare-fun proj%%vstd!view.View./V (Dcr Type) Dcr)
(declare-fun proj%vstd!view.View./V (Dcr Type) Type)
(declare-fun proj%%core!ops.function.FnOnce./Output (Dcr Type Dcr Type) Dcr)
(declare-fun proj%core!ops.function.FnOnce./Output (Dcr Type Dcr Type) Type)
(declare-fun proj%%core!ops.index.Index./Output (Dcr Type Dcr Type) Dcr)
(declare-fun proj%core!ops.index.Index./Output (Dcr Type Dcr Type) Type)
(declare-fun proj%%core!hash.BuildHasher./Hasher (Dcr Type) Dcr)
(declare-fun proj%core!hash.BuildHasher./Hasher (Dcr Type) Type)

;; Datatypes
(declare-fun pointee_metadata% (Dcr) Type)
(declare-fun pointee_metadata%% (Dcr) Dcr)
(assert
 (forall ((d Dcr)) (!
   (=>
    (sized d)
    (= (pointee_metadata% d) TYPE%tuple%0.)
   )
   :pattern ((pointee_metadata% d))
   :qid prelude_project_pointee_metadata_sized
   :skolemid skolem_prelude_project_pointee_metadata_sized
)))
(assert
 (forall ((d Dcr)) (!
   (=>
    (sized d)
    (= (pointee_metadata%% d) $)
   )
   :pattern ((pointee_metadata%% d))
   :qid prelude_project_pointee_metadata_decoration_sized
   :skolemid skolem_prelude_project_pointee_metadata_decoration_sized
)))
(assert
 (= (pointee_metadata% $slice) USIZE)
)
(assert
 (= (pointee_metadata%% $slice) $)
)
(assert
 (forall ((d Dcr)) (!
   (= (pointee_metadata% (DST d)) (pointee_metadata% d))
   :pattern ((pointee_metadata% (DST d)))
   :qid prelude_project_pointee_metadata_decorate_struct_inherit
   :skolemid skolem_prelude_project_pointee_metadata_decorate_struct_inherit
)))
(assert
 (forall ((d Dcr)) (!
   (= (pointee_metadata%% (DST d)) (pointee_metadata%% d))
   :pattern ((pointee_metadata%% (DST d)))
   :qid prelude_project_pointee_metadata_decoration_decorate_struct_inherit
   :skolemid skolem_prelude_project_pointee_metadata_decoration_decorate_struct_inherit
)))
(declare-sort core!num.nonzero.NonZero<u8.>. 0)
(declare-sort core!num.nonzero.NonZero<u16.>. 0)
(declare-sort core!num.nonzero.NonZero<u32.>. 0)
(declare-sort core!num.nonzero.NonZero<u64.>. 0)
(declare-sort core!num.nonzero.NonZero<u128.>. 0)
(declare-sort core!num.nonzero.NonZero<i8.>. 0)
(declare-sort core!num.nonzero.NonZero<i16.>. 0)
(declare-sort core!num.nonzero.NonZero<i32.>. 0)
(declare-sort core!num.nonzero.NonZero<i64.>. 0)
(declare-sort core!num.nonzero.NonZero<i128.>. 0)
(declare-sort core!num.nonzero.NonZero<usize.>. 0)
(declare-sort core!num.nonzero.NonZero<isize.>. 0)
(declare-sort alloc!alloc.Global. 0)
(declare-sort alloc!string.String. 0)
(declare-sort vstd!map.Map<alloc!string.String./tuple%2<alloc!string.String./alloc!string.String.>.>.
 0
)
(declare-sort vstd!raw_ptr.Provenance. 0)
(declare-sort vstd!seq.Seq<u8.>. 0)
(declare-sort vstd!seq.Seq<char.>. 0)
(declare-sort vstd!seq.Seq<vstd!seq.Seq<u8.>.>. 0)
(declare-sort std!collections.hash.map.HashMap<alloc!string.String./tuple%2<alloc!string.String./alloc!string.String.>./std!hash.random.RandomState./alloc!alloc.Global.>.
 0
)
(declare-sort std!hash.random.DefaultHasher. 0)
(declare-sort std!hash.random.RandomState. 0)
(declare-sort slice%<u8.>. 0)
(declare-sort strslice%. 0)
(declare-datatypes ((core!ops.range.Bound. 0) (vstd!raw_ptr.PtrData. 0) (tuple%0. 0)
  (tuple%2. 0)
 ) (((core!ops.range.Bound./Included (core!ops.range.Bound./Included/?0 Poly)) (core!ops.range.Bound./Excluded
    (core!ops.range.Bound./Excluded/?0 Poly)
   ) (core!ops.range.Bound./Unbounded)
  ) ((vstd!raw_ptr.PtrData./PtrData (vstd!raw_ptr.PtrData./PtrData/?addr Int) (vstd!raw_ptr.PtrData./PtrData/?provenance
     vstd!raw_ptr.Provenance.
    ) (vstd!raw_ptr.PtrData./PtrData/?metadata Poly)
   )
  ) ((tuple%0./tuple%0)) ((tuple%2./tuple%2 (tuple%2./tuple%2/?0 Poly) (tuple%2./tuple%2/?1
     Poly
)))))
(declare-fun core!ops.range.Bound./Included/0 (Dcr Type core!ops.range.Bound.) Poly)
(declare-fun core!ops.range.Bound./Excluded/0 (Dcr Type core!ops.range.Bound.) Poly)
(declare-fun vstd!raw_ptr.PtrData./PtrData/addr (vstd!raw_ptr.PtrData.) Int)
(declare-fun vstd!raw_ptr.PtrData./PtrData/provenance (vstd!raw_ptr.PtrData.) vstd!raw_ptr.Provenance.)
(declare-fun vstd!raw_ptr.PtrData./PtrData/metadata (vstd!raw_ptr.PtrData.) Poly)
(declare-fun tuple%2./tuple%2/0 (tuple%2.) Poly)
(declare-fun tuple%2./tuple%2/1 (tuple%2.) Poly)
(declare-fun TYPE%fun%1. (Dcr Type Dcr Type) Type)
(declare-const TYPE%alloc!alloc.Global. Type)
(declare-const TYPE%std!hash.random.DefaultHasher. Type)
(declare-const TYPE%std!hash.random.RandomState. Type)
(declare-fun TYPE%std!collections.hash.map.HashMap. (Dcr Type Dcr Type Dcr Type Dcr
  Type
 ) Type
)
(declare-fun TYPE%core!ops.range.Bound. (Dcr Type) Type)
(declare-fun TYPE%core!num.nonzero.NonZero. (Dcr Type) Type)
(declare-fun TYPE%vstd!iset.ISet. (Dcr Type) Type)
(declare-fun TYPE%vstd!map.Map. (Dcr Type Dcr Type) Type)
(declare-const TYPE%vstd!raw_ptr.Provenance. Type)
(declare-fun TYPE%vstd!raw_ptr.PtrData. (Dcr Type) Type)
(declare-fun TYPE%vstd!seq.Seq. (Dcr Type) Type)
(declare-fun TYPE%vstd!set.Set. (Dcr Type) Type)
(declare-const TYPE%alloc!string.String. Type)
(declare-fun TYPE%tuple%2. (Dcr Type Dcr Type) Type)
(declare-fun FNDEF%core!ops.index.Index.index. (Dcr Type Dcr Type) Type)
(declare-fun FNDEF%core!slice.index.SliceIndex.index. (Dcr Type Dcr Type) Type)
(declare-fun Poly%fun%1. (%%Function%%) Poly)
(declare-fun %Poly%fun%1. (Poly) %%Function%%)
(declare-fun Poly%array%. (%%Function%%) Poly)
(declare-fun %Poly%array%. (Poly) %%Function%%)
(declare-fun Poly%core!num.nonzero.NonZero<u8.>. (core!num.nonzero.NonZero<u8.>.)
 Poly
)
(declare-fun %Poly%core!num.nonzero.NonZero<u8.>. (Poly) core!num.nonzero.NonZero<u8.>.)
(declare-fun Poly%core!num.nonzero.NonZero<u16.>. (core!num.nonzero.NonZero<u16.>.)
 Poly
)
(declare-fun %Poly%core!num.nonzero.NonZero<u16.>. (Poly) core!num.nonzero.NonZero<u16.>.)
(declare-fun Poly%core!num.nonzero.NonZero<u32.>. (core!num.nonzero.NonZero<u32.>.)
 Poly
)
(declare-fun %Poly%core!num.nonzero.NonZero<u32.>. (Poly) core!num.nonzero.NonZero<u32.>.)
(declare-fun Poly%core!num.nonzero.NonZero<u64.>. (core!num.nonzero.NonZero<u64.>.)
 Poly
)
(declare-fun %Poly%core!num.nonzero.NonZero<u64.>. (Poly) core!num.nonzero.NonZero<u64.>.)
(declare-fun Poly%core!num.nonzero.NonZero<u128.>. (core!num.nonzero.NonZero<u128.>.)
 Poly
)
(declare-fun %Poly%core!num.nonzero.NonZero<u128.>. (Poly) core!num.nonzero.NonZero<u128.>.)
(declare-fun Poly%core!num.nonzero.NonZero<i8.>. (core!num.nonzero.NonZero<i8.>.)
 Poly
)
(declare-fun %Poly%core!num.nonzero.NonZero<i8.>. (Poly) core!num.nonzero.NonZero<i8.>.)
(declare-fun Poly%core!num.nonzero.NonZero<i16.>. (core!num.nonzero.NonZero<i16.>.)
 Poly
)
(declare-fun %Poly%core!num.nonzero.NonZero<i16.>. (Poly) core!num.nonzero.NonZero<i16.>.)
(declare-fun Poly%core!num.nonzero.NonZero<i32.>. (core!num.nonzero.NonZero<i32.>.)
 Poly
)
(declare-fun %Poly%core!num.nonzero.NonZero<i32.>. (Poly) core!num.nonzero.NonZero<i32.>.)
(declare-fun Poly%core!num.nonzero.NonZero<i64.>. (core!num.nonzero.NonZero<i64.>.)
 Poly
)
(declare-fun %Poly%core!num.nonzero.NonZero<i64.>. (Poly) core!num.nonzero.NonZero<i64.>.)
(declare-fun Poly%core!num.nonzero.NonZero<i128.>. (core!num.nonzero.NonZero<i128.>.)
 Poly
)
(declare-fun %Poly%core!num.nonzero.NonZero<i128.>. (Poly) core!num.nonzero.NonZero<i128.>.)
(declare-fun Poly%core!num.nonzero.NonZero<usize.>. (core!num.nonzero.NonZero<usize.>.)
 Poly
)
(declare-fun %Poly%core!num.nonzero.NonZero<usize.>. (Poly) core!num.nonzero.NonZero<usize.>.)
(declare-fun Poly%core!num.nonzero.NonZero<isize.>. (core!num.nonzero.NonZero<isize.>.)
 Poly
)
(declare-fun %Poly%core!num.nonzero.NonZero<isize.>. (Poly) core!num.nonzero.NonZero<isize.>.)
(declare-fun Poly%alloc!alloc.Global. (alloc!alloc.Global.) Poly)
(declare-fun %Poly%alloc!alloc.Global. (Poly) alloc!alloc.Global.)
(declare-fun Poly%alloc!string.String. (alloc!string.String.) Poly)
(declare-fun %Poly%alloc!string.String. (Poly) alloc!string.String.)
(declare-fun Poly%vstd!map.Map<alloc!string.String./tuple%2<alloc!string.String./alloc!string.String.>.>.
 (vstd!map.Map<alloc!string.String./tuple%2<alloc!string.String./alloc!string.String.>.>.)
 Poly
)
(declare-fun %Poly%vstd!map.Map<alloc!string.String./tuple%2<alloc!string.String./alloc!string.String.>.>.
 (Poly) vstd!map.Map<alloc!string.String./tuple%2<alloc!string.String./alloc!string.String.>.>.
)
(declare-fun Poly%vstd!raw_ptr.Provenance. (vstd!raw_ptr.Provenance.) Poly)
(declare-fun %Poly%vstd!raw_ptr.Provenance. (Poly) vstd!raw_ptr.Provenance.)
(declare-fun Poly%vstd!seq.Seq<u8.>. (vstd!seq.Seq<u8.>.) Poly)
(declare-fun %Poly%vstd!seq.Seq<u8.>. (Poly) vstd!seq.Seq<u8.>.)
(declare-fun Poly%vstd!seq.Seq<char.>. (vstd!seq.Seq<char.>.) Poly)
(declare-fun %Poly%vstd!seq.Seq<char.>. (Poly) vstd!seq.Seq<char.>.)
(declare-fun Poly%vstd!seq.Seq<vstd!seq.Seq<u8.>.>. (vstd!seq.Seq<vstd!seq.Seq<u8.>.>.)
 Poly
)
(declare-fun %Poly%vstd!seq.Seq<vstd!seq.Seq<u8.>.>. (Poly) vstd!seq.Seq<vstd!seq.Seq<u8.>.>.)
(declare-fun Poly%std!collections.hash.map.HashMap<alloc!string.String./tuple%2<alloc!string.String./alloc!string.String.>./std!hash.random.RandomState./alloc!alloc.Global.>.
 (std!collections.hash.map.HashMap<alloc!string.String./tuple%2<alloc!string.String./alloc!string.String.>./std!hash.random.RandomState./alloc!alloc.Global.>.)
 Poly
)
(declare-fun %Poly%std!collections.hash.map.HashMap<alloc!string.String./tuple%2<alloc!string.String./alloc!string.String.>./std!hash.random.RandomState./alloc!alloc.Global.>.
 (Poly) std!collections.hash.map.HashMap<alloc!string.String./tuple%2<alloc!string.String./alloc!string.String.>./std!hash.random.RandomState./alloc!alloc.Global.>.
)
(declare-fun Poly%std!hash.random.DefaultHasher. (std!hash.random.DefaultHasher.)
 Poly
)
(declare-fun %Poly%std!hash.random.DefaultHasher. (Poly) std!hash.random.DefaultHasher.)
(declare-fun Poly%std!hash.random.RandomState. (std!hash.random.RandomState.) Poly)
(declare-fun %Poly%std!hash.random.RandomState. (Poly) std!hash.random.RandomState.)
(declare-fun Poly%slice%<u8.>. (slice%<u8.>.) Poly)
(declare-fun %Poly%slice%<u8.>. (Poly) slice%<u8.>.)
(declare-fun Poly%strslice%. (strslice%.) Poly)
(declare-fun %Poly%strslice%. (Poly) strslice%.)
(declare-fun Poly%core!ops.range.Bound. (core!ops.range.Bound.) Poly)
(declare-fun %Poly%core!ops.range.Bound. (Poly) core!ops.range.Bound.)
(declare-fun Poly%vstd!raw_ptr.PtrData. (vstd!raw_ptr.PtrData.) Poly)
(declare-fun %Poly%vstd!raw_ptr.PtrData. (Poly) vstd!raw_ptr.PtrData.)
(declare-fun Poly%tuple%0. (tuple%0.) Poly)
(declare-fun %Poly%tuple%0. (Poly) tuple%0.)
(declare-fun Poly%tuple%2. (tuple%2.) Poly)
(declare-fun %Poly%tuple%2. (Poly) tuple%2.)
(assert
 (forall ((x %%Function%%)) (!
   (= x (%Poly%fun%1. (Poly%fun%1. x)))
   :pattern ((Poly%fun%1. x))
   :qid internal_crate__fun__1_box_axiom_definition
   :skolemid skolem_internal_crate__fun__1_box_axiom_definition
)))
(assert
 (forall ((T%0&. Dcr) (T%0& Type) (T%1&. Dcr) (T%1& Type) (x Poly)) (!
   (=>
    (has_type x (TYPE%fun%1. T%0&. T%0& T%1&. T%1&))
    (= x (Poly%fun%1. (%Poly%fun%1. x)))
   )
   :pattern ((has_type x (TYPE%fun%1. T%0&. T%0& T%1&. T%1&)))
   :qid internal_crate__fun__1_unbox_axiom_definition
   :skolemid skolem_internal_crate__fun__1_unbox_axiom_definition
)))
(declare-fun %%apply%%0 (%%Function%% Poly) Poly)
(assert
 (forall ((T%0&. Dcr) (T%0& Type) (T%1&. Dcr) (T%1& Type) (x %%Function%%)) (!
   (=>
    (forall ((T%0 Poly)) (!
      (=>
       (has_type T%0 T%0&)
       (has_type (%%apply%%0 x T%0) T%1&)
      )
      :pattern ((has_type (%%apply%%0 x T%0) T%1&))
      :qid internal_crate__fun__1_constructor_inner_definition
      :skolemid skolem_internal_crate__fun__1_constructor_inner_definition
    ))
    (has_type (Poly%fun%1. (mk_fun x)) (TYPE%fun%1. T%0&. T%0& T%1&. T%1&))
   )
   :pattern ((has_type (Poly%fun%1. (mk_fun x)) (TYPE%fun%1. T%0&. T%0& T%1&. T%1&)))
   :qid internal_crate__fun__1_constructor_definition
   :skolemid skolem_internal_crate__fun__1_constructor_definition
)))
(assert
 (forall ((T%0&. Dcr) (T%0& Type) (T%1&. Dcr) (T%1& Type) (T%0 Poly) (x %%Function%%))
  (!
   (=>
    (and
     (has_type (Poly%fun%1. x) (TYPE%fun%1. T%0&. T%0& T%1&. T%1&))
     (has_type T%0 T%0&)
    )
    (has_type (%%apply%%0 x T%0) T%1&)
   )
   :pattern ((%%apply%%0 x T%0) (has_type (Poly%fun%1. x) (TYPE%fun%1. T%0&. T%0& T%1&.
      T%1&
   )))
   :qid internal_crate__fun__1_apply_definition
   :skolemid skolem_internal_crate__fun__1_apply_definition
)))
(assert
 (forall ((T%0&. Dcr) (T%0& Type) (T%1&. Dcr) (T%1& Type) (T%0 Poly) (x %%Function%%))
  (!
   (=>
    (and
     (has_type (Poly%fun%1. x) (TYPE%fun%1. T%0&. T%0& T%1&. T%1&))
     (has_type T%0 T%0&)
    )
    (height_lt (height (%%apply%%0 x T%0)) (height (fun_from_recursive_field (Poly%fun%1.
        (mk_fun x)
   )))))
   :pattern ((height (%%apply%%0 x T%0)) (has_type (Poly%fun%1. x) (TYPE%fun%1. T%0&. T%0&
      T%1&. T%1&
   )))
   :qid internal_crate__fun__1_height_apply_definition
   :skolemid skolem_internal_crate__fun__1_height_apply_definition
)))
(assert
 (forall ((T%0&. Dcr) (T%0& Type) (T%1&. Dcr) (T%1& Type) (deep Bool) (x Poly) (y Poly))
  (!
   (=>
    (and
     (has_type x (TYPE%fun%1. T%0&. T%0& T%1&. T%1&))
     (has_type y (TYPE%fun%1. T%0&. T%0& T%1&. T%1&))
     (forall ((T%0 Poly)) (!
       (=>
        (has_type T%0 T%0&)
        (ext_eq deep T%1& (%%apply%%0 (%Poly%fun%1. x) T%0) (%%apply%%0 (%Poly%fun%1. y) T%0))
       )
       :pattern ((ext_eq deep T%1& (%%apply%%0 (%Poly%fun%1. x) T%0) (%%apply%%0 (%Poly%fun%1.
           y
          ) T%0
       )))
       :qid internal_crate__fun__1_inner_ext_equal_definition
       :skolemid skolem_internal_crate__fun__1_inner_ext_equal_definition
    )))
    (ext_eq deep (TYPE%fun%1. T%0&. T%0& T%1&. T%1&) x y)
   )
   :pattern ((ext_eq deep (TYPE%fun%1. T%0&. T%0& T%1&. T%1&) x y))
   :qid internal_crate__fun__1_ext_equal_definition
   :skolemid skolem_internal_crate__fun__1_ext_equal_definition
)))
(assert
 (forall ((x %%Function%%)) (!
   (= x (%Poly%array%. (Poly%array%. x)))
   :pattern ((Poly%array%. x))
   :qid internal_crate__array___box_axiom_definition
   :skolemid skolem_internal_crate__array___box_axiom_definition
)))
(assert
 (forall ((T&. Dcr) (T& Type) (N&. Dcr) (N& Type) (x Poly)) (!
   (=>
    (has_type x (ARRAY T&. T& N&. N&))
    (= x (Poly%array%. (%Poly%array%. x)))
   )
   :pattern ((has_type x (ARRAY T&. T& N&. N&)))
   :qid internal_crate__array___unbox_axiom_definition
   :skolemid skolem_internal_crate__array___unbox_axiom_definition
)))
(assert
 (forall ((x core!num.nonzero.NonZero<u8.>.)) (!
   (= x (%Poly%core!num.nonzero.NonZero<u8.>. (Poly%core!num.nonzero.NonZero<u8.>. x)))
   :pattern ((Poly%core!num.nonzero.NonZero<u8.>. x))
   :qid internal_core__num__nonzero__NonZero<u8.>_box_axiom_definition
   :skolemid skolem_internal_core__num__nonzero__NonZero<u8.>_box_axiom_definition
)))
(assert
 (forall ((x Poly)) (!
   (=>
    (has_type x (TYPE%core!num.nonzero.NonZero. $ (UINT 8)))
    (= x (Poly%core!num.nonzero.NonZero<u8.>. (%Poly%core!num.nonzero.NonZero<u8.>. x)))
   )
   :pattern ((has_type x (TYPE%core!num.nonzero.NonZero. $ (UINT 8))))
   :qid internal_core__num__nonzero__NonZero<u8.>_unbox_axiom_definition
   :skolemid skolem_internal_core__num__nonzero__NonZero<u8.>_unbox_axiom_definition
)))
(assert
 (forall ((x core!num.nonzero.NonZero<u8.>.)) (!
   (has_type (Poly%core!num.nonzero.NonZero<u8.>. x) (TYPE%core!num.nonzero.NonZero. $
     (UINT 8)
   ))
   :pattern ((has_type (Poly%core!num.nonzero.NonZero<u8.>. x) (TYPE%core!num.nonzero.NonZero.
      $ (UINT 8)
   )))
   :qid internal_core__num__nonzero__NonZero<u8.>_has_type_always_definition
   :skolemid skolem_internal_core__num__nonzero__NonZero<u8.>_has_type_always_definition
)))
(assert
 (forall ((x core!num.nonzero.NonZero<u16.>.)) (!
   (= x (%Poly%core!num.nonzero.NonZero<u16.>. (Poly%core!num.nonzero.NonZero<u16.>. x)))
   :pattern ((Poly%core!num.nonzero.NonZero<u16.>. x))
   :qid internal_core__num__nonzero__NonZero<u16.>_box_axiom_definition
   :skolemid skolem_internal_core__num__nonzero__NonZero<u16.>_box_axiom_definition
)))
(assert
 (forall ((x Poly)) (!
   (=>
    (has_type x (TYPE%core!num.nonzero.NonZero. $ (UINT 16)))
    (= x (Poly%core!num.nonzero.NonZero<u16.>. (%Poly%core!num.nonzero.NonZero<u16.>. x)))
   )
   :pattern ((has_type x (TYPE%core!num.nonzero.NonZero. $ (UINT 16))))
   :qid internal_core__num__nonzero__NonZero<u16.>_unbox_axiom_definition
   :skolemid skolem_internal_core__num__nonzero__NonZero<u16.>_unbox_axiom_definition
)))
(assert
 (forall ((x core!num.nonzero.NonZero<u16.>.)) (!
   (has_type (Poly%core!num.nonzero.NonZero<u16.>. x) (TYPE%core!num.nonzero.NonZero.
     $ (UINT 16)
   ))
   :pattern ((has_type (Poly%core!num.nonzero.NonZero<u16.>. x) (TYPE%core!num.nonzero.NonZero.
      $ (UINT 16)
   )))
   :qid internal_core__num__nonzero__NonZero<u16.>_has_type_always_definition
   :skolemid skolem_internal_core__num__nonzero__NonZero<u16.>_has_type_always_definition
)))
(assert
 (forall ((x core!num.nonzero.NonZero<u32.>.)) (!
   (= x (%Poly%core!num.nonzero.NonZero<u32.>. (Poly%core!num.nonzero.NonZero<u32.>. x)))
   :pattern ((Poly%core!num.nonzero.NonZero<u32.>. x))
   :qid internal_core__num__nonzero__NonZero<u32.>_box_axiom_definition
   :skolemid skolem_internal_core__num__nonzero__NonZero<u32.>_box_axiom_definition
)))
(assert
 (forall ((x Poly)) (!
   (=>
    (has_type x (TYPE%core!num.nonzero.NonZero. $ (UINT 32)))
    (= x (Poly%core!num.nonzero.NonZero<u32.>. (%Poly%core!num.nonzero.NonZero<u32.>. x)))
   )
   :pattern ((has_type x (TYPE%core!num.nonzero.NonZero. $ (UINT 32))))
   :qid internal_core__num__nonzero__NonZero<u32.>_unbox_axiom_definition
   :skolemid skolem_internal_core__num__nonzero__NonZero<u32.>_unbox_axiom_definition
)))
(assert
 (forall ((x core!num.nonzero.NonZero<u32.>.)) (!
   (has_type (Poly%core!num.nonzero.NonZero<u32.>. x) (TYPE%core!num.nonzero.NonZero.
     $ (UINT 32)
   ))
   :pattern ((has_type (Poly%core!num.nonzero.NonZero<u32.>. x) (TYPE%core!num.nonzero.NonZero.
      $ (UINT 32)
   )))
   :qid internal_core__num__nonzero__NonZero<u32.>_has_type_always_definition
   :skolemid skolem_internal_core__num__nonzero__NonZero<u32.>_has_type_always_definition
)))
(assert
 (forall ((x core!num.nonzero.NonZero<u64.>.)) (!
   (= x (%Poly%core!num.nonzero.NonZero<u64.>. (Poly%core!num.nonzero.NonZero<u64.>. x)))
   :pattern ((Poly%core!num.nonzero.NonZero<u64.>. x))
   :qid internal_core__num__nonzero__NonZero<u64.>_box_axiom_definition
   :skolemid skolem_internal_core__num__nonzero__NonZero<u64.>_box_axiom_definition
)))
(assert
 (forall ((x Poly)) (!
   (=>
    (has_type x (TYPE%core!num.nonzero.NonZero. $ (UINT 64)))
    (= x (Poly%core!num.nonzero.NonZero<u64.>. (%Poly%core!num.nonzero.NonZero<u64.>. x)))
   )
   :pattern ((has_type x (TYPE%core!num.nonzero.NonZero. $ (UINT 64))))
   :qid internal_core__num__nonzero__NonZero<u64.>_unbox_axiom_definition
   :skolemid skolem_internal_core__num__nonzero__NonZero<u64.>_unbox_axiom_definition
)))
(assert
 (forall ((x core!num.nonzero.NonZero<u64.>.)) (!
   (has_type (Poly%core!num.nonzero.NonZero<u64.>. x) (TYPE%core!num.nonzero.NonZero.
     $ (UINT 64)
   ))
   :pattern ((has_type (Poly%core!num.nonzero.NonZero<u64.>. x) (TYPE%core!num.nonzero.NonZero.
      $ (UINT 64)
   )))
   :qid internal_core__num__nonzero__NonZero<u64.>_has_type_always_definition
   :skolemid skolem_internal_core__num__nonzero__NonZero<u64.>_has_type_always_definition
)))
(assert
 (forall ((x core!num.nonzero.NonZero<u128.>.)) (!
   (= x (%Poly%core!num.nonzero.NonZero<u128.>. (Poly%core!num.nonzero.NonZero<u128.>.
      x
   )))
   :pattern ((Poly%core!num.nonzero.NonZero<u128.>. x))
   :qid internal_core__num__nonzero__NonZero<u128.>_box_axiom_definition
   :skolemid skolem_internal_core__num__nonzero__NonZero<u128.>_box_axiom_definition
)))
(assert
 (forall ((x Poly)) (!
   (=>
    (has_type x (TYPE%core!num.nonzero.NonZero. $ (UINT 128)))
    (= x (Poly%core!num.nonzero.NonZero<u128.>. (%Poly%core!num.nonzero.NonZero<u128.>.
       x
   ))))
   :pattern ((has_type x (TYPE%core!num.nonzero.NonZero. $ (UINT 128))))
   :qid internal_core__num__nonzero__NonZero<u128.>_unbox_axiom_definition
   :skolemid skolem_internal_core__num__nonzero__NonZero<u128.>_unbox_axiom_definition
)))
(assert
 (forall ((x core!num.nonzero.NonZero<u128.>.)) (!
   (has_type (Poly%core!num.nonzero.NonZero<u128.>. x) (TYPE%core!num.nonzero.NonZero.
     $ (UINT 128)
   ))
   :pattern ((has_type (Poly%core!num.nonzero.NonZero<u128.>. x) (TYPE%core!num.nonzero.NonZero.
      $ (UINT 128)
   )))
   :qid internal_core__num__nonzero__NonZero<u128.>_has_type_always_definition
   :skolemid skolem_internal_core__num__nonzero__NonZero<u128.>_has_type_always_definition
)))
(assert
 (forall ((x core!num.nonzero.NonZero<i8.>.)) (!
   (= x (%Poly%core!num.nonzero.NonZero<i8.>. (Poly%core!num.nonzero.NonZero<i8.>. x)))
   :pattern ((Poly%core!num.nonzero.NonZero<i8.>. x))
   :qid internal_core__num__nonzero__NonZero<i8.>_box_axiom_definition
   :skolemid skolem_internal_core__num__nonzero__NonZero<i8.>_box_axiom_definition
)))
(assert
 (forall ((x Poly)) (!
   (=>
    (has_type x (TYPE%core!num.nonzero.NonZero. $ (SINT 8)))
    (= x (Poly%core!num.nonzero.NonZero<i8.>. (%Poly%core!num.nonzero.NonZero<i8.>. x)))
   )
   :pattern ((has_type x (TYPE%core!num.nonzero.NonZero. $ (SINT 8))))
   :qid internal_core__num__nonzero__NonZero<i8.>_unbox_axiom_definition
   :skolemid skolem_internal_core__num__nonzero__NonZero<i8.>_unbox_axiom_definition
)))
(assert
 (forall ((x core!num.nonzero.NonZero<i8.>.)) (!
   (has_type (Poly%core!num.nonzero.NonZero<i8.>. x) (TYPE%core!num.nonzero.NonZero. $
     (SINT 8)
   ))
   :pattern ((has_type (Poly%core!num.nonzero.NonZero<i8.>. x) (TYPE%core!num.nonzero.NonZero.
      $ (SINT 8)
   )))
   :qid internal_core__num__nonzero__NonZero<i8.>_has_type_always_definition
   :skolemid skolem_internal_core__num__nonzero__NonZero<i8.>_has_type_always_definition
)))
(assert
 (forall ((x core!num.nonzero.NonZero<i16.>.)) (!
   (= x (%Poly%core!num.nonzero.NonZero<i16.>. (Poly%core!num.nonzero.NonZero<i16.>. x)))
   :pattern ((Poly%core!num.nonzero.NonZero<i16.>. x))
   :qid internal_core__num__nonzero__NonZero<i16.>_box_axiom_definition
   :skolemid skolem_internal_core__num__nonzero__NonZero<i16.>_box_axiom_definition
)))
(assert
 (forall ((x Poly)) (!
   (=>
    (has_type x (TYPE%core!num.nonzero.NonZero. $ (SINT 16)))
    (= x (Poly%core!num.nonzero.NonZero<i16.>. (%Poly%core!num.nonzero.NonZero<i16.>. x)))
   )
   :pattern ((has_type x (TYPE%core!num.nonzero.NonZero. $ (SINT 16))))
   :qid internal_core__num__nonzero__NonZero<i16.>_unbox_axiom_definition
   :skolemid skolem_internal_core__num__nonzero__NonZero<i16.>_unbox_axiom_definition
)))
(assert
 (forall ((x core!num.nonzero.NonZero<i16.>.)) (!
   (has_type (Poly%core!num.nonzero.NonZero<i16.>. x) (TYPE%core!num.nonzero.NonZero.
     $ (SINT 16)
   ))
   :pattern ((has_type (Poly%core!num.nonzero.NonZero<i16.>. x) (TYPE%core!num.nonzero.NonZero.
      $ (SINT 16)
   )))
   :qid internal_core__num__nonzero__NonZero<i16.>_has_type_always_definition
   :skolemid skolem_internal_core__num__nonzero__NonZero<i16.>_has_type_always_definition
)))
(assert
 (forall ((x core!num.nonzero.NonZero<i32.>.)) (!
   (= x (%Poly%core!num.nonzero.NonZero<i32.>. (Poly%core!num.nonzero.NonZero<i32.>. x)))
   :pattern ((Poly%core!num.nonzero.NonZero<i32.>. x))
   :qid internal_core__num__nonzero__NonZero<i32.>_box_axiom_definition
   :skolemid skolem_internal_core__num__nonzero__NonZero<i32.>_box_axiom_definition
)))
(assert
 (forall ((x Poly)) (!
   (=>
    (has_type x (TYPE%core!num.nonzero.NonZero. $ (SINT 32)))
    (= x (Poly%core!num.nonzero.NonZero<i32.>. (%Poly%core!num.nonzero.NonZero<i32.>. x)))
   )
   :pattern ((has_type x (TYPE%core!num.nonzero.NonZero. $ (SINT 32))))
   :qid internal_core__num__nonzero__NonZero<i32.>_unbox_axiom_definition
   :skolemid skolem_internal_core__num__nonzero__NonZero<i32.>_unbox_axiom_definition
)))
(assert
 (forall ((x core!num.nonzero.NonZero<i32.>.)) (!
   (has_type (Poly%core!num.nonzero.NonZero<i32.>. x) (TYPE%core!num.nonzero.NonZero.
     $ (SINT 32)
   ))
   :pattern ((has_type (Poly%core!num.nonzero.NonZero<i32.>. x) (TYPE%core!num.nonzero.NonZero.
      $ (SINT 32)
   )))
   :qid internal_core__num__nonzero__NonZero<i32.>_has_type_always_definition
   :skolemid skolem_internal_core__num__nonzero__NonZero<i32.>_has_type_always_definition
)))
(assert
 (forall ((x core!num.nonzero.NonZero<i64.>.)) (!
   (= x (%Poly%core!num.nonzero.NonZero<i64.>. (Poly%core!num.nonzero.NonZero<i64.>. x)))
   :pattern ((Poly%core!num.nonzero.NonZero<i64.>. x))
   :qid internal_core__num__nonzero__NonZero<i64.>_box_axiom_definition
   :skolemid skolem_internal_core__num__nonzero__NonZero<i64.>_box_axiom_definition
)))
(assert
 (forall ((x Poly)) (!
   (=>
    (has_type x (TYPE%core!num.nonzero.NonZero. $ (SINT 64)))
    (= x (Poly%core!num.nonzero.NonZero<i64.>. (%Poly%core!num.nonzero.NonZero<i64.>. x)))
   )
   :pattern ((has_type x (TYPE%core!num.nonzero.NonZero. $ (SINT 64))))
   :qid internal_core__num__nonzero__NonZero<i64.>_unbox_axiom_definition
   :skolemid skolem_internal_core__num__nonzero__NonZero<i64.>_unbox_axiom_definition
)))
(assert
 (forall ((x core!num.nonzero.NonZero<i64.>.)) (!
   (has_type (Poly%core!num.nonzero.NonZero<i64.>. x) (TYPE%core!num.nonzero.NonZero.
     $ (SINT 64)
   ))
   :pattern ((has_type (Poly%core!num.nonzero.NonZero<i64.>. x) (TYPE%core!num.nonzero.NonZero.
      $ (SINT 64)
   )))
   :qid internal_core__num__nonzero__NonZero<i64.>_has_type_always_definition
   :skolemid skolem_internal_core__num__nonzero__NonZero<i64.>_has_type_always_definition
)))
(assert
 (forall ((x core!num.nonzero.NonZero<i128.>.)) (!
   (= x (%Poly%core!num.nonzero.NonZero<i128.>. (Poly%core!num.nonzero.NonZero<i128.>.
      x
   )))
   :pattern ((Poly%core!num.nonzero.NonZero<i128.>. x))
   :qid internal_core__num__nonzero__NonZero<i128.>_box_axiom_definition
   :skolemid skolem_internal_core__num__nonzero__NonZero<i128.>_box_axiom_definition
)))
(assert
 (forall ((x Poly)) (!
   (=>
    (has_type x (TYPE%core!num.nonzero.NonZero. $ (SINT 128)))
    (= x (Poly%core!num.nonzero.NonZero<i128.>. (%Poly%core!num.nonzero.NonZero<i128.>.
       x
   ))))
   :pattern ((has_type x (TYPE%core!num.nonzero.NonZero. $ (SINT 128))))
   :qid internal_core__num__nonzero__NonZero<i128.>_unbox_axiom_definition
   :skolemid skolem_internal_core__num__nonzero__NonZero<i128.>_unbox_axiom_definition
)))
(assert
 (forall ((x core!num.nonzero.NonZero<i128.>.)) (!
   (has_type (Poly%core!num.nonzero.NonZero<i128.>. x) (TYPE%core!num.nonzero.NonZero.
     $ (SINT 128)
   ))
   :pattern ((has_type (Poly%core!num.nonzero.NonZero<i128.>. x) (TYPE%core!num.nonzero.NonZero.
      $ (SINT 128)
   )))
   :qid internal_core__num__nonzero__NonZero<i128.>_has_type_always_definition
   :skolemid skolem_internal_core__num__nonzero__NonZero<i128.>_has_type_always_definition
)))
(assert
 (forall ((x core!num.nonzero.NonZero<usize.>.)) (!
   (= x (%Poly%core!num.nonzero.NonZero<usize.>. (Poly%core!num.nonzero.NonZero<usize.>.
      x
   )))
   :pattern ((Poly%core!num.nonzero.NonZero<usize.>. x))
   :qid internal_core__num__nonzero__NonZero<usize.>_box_axiom_definition
   :skolemid skolem_internal_core__num__nonzero__NonZero<usize.>_box_axiom_definition
)))
(assert
 (forall ((x Poly)) (!
   (=>
    (has_type x (TYPE%core!num.nonzero.NonZero. $ USIZE))
    (= x (Poly%core!num.nonzero.NonZero<usize.>. (%Poly%core!num.nonzero.NonZero<usize.>.
       x
   ))))
   :pattern ((has_type x (TYPE%core!num.nonzero.NonZero. $ USIZE)))
   :qid internal_core__num__nonzero__NonZero<usize.>_unbox_axiom_definition
   :skolemid skolem_internal_core__num__nonzero__NonZero<usize.>_unbox_axiom_definition
)))
(assert
 (forall ((x core!num.nonzero.NonZero<usize.>.)) (!
   (has_type (Poly%core!num.nonzero.NonZero<usize.>. x) (TYPE%core!num.nonzero.NonZero.
     $ USIZE
   ))
   :pattern ((has_type (Poly%core!num.nonzero.NonZero<usize.>. x) (TYPE%core!num.nonzero.NonZero.
      $ USIZE
   )))
   :qid internal_core__num__nonzero__NonZero<usize.>_has_type_always_definition
   :skolemid skolem_internal_core__num__nonzero__NonZero<usize.>_has_type_always_definition
)))
(assert
 (forall ((x core!num.nonzero.NonZero<isize.>.)) (!
   (= x (%Poly%core!num.nonzero.NonZero<isize.>. (Poly%core!num.nonzero.NonZero<isize.>.
      x
   )))
   :pattern ((Poly%core!num.nonzero.NonZero<isize.>. x))
   :qid internal_core__num__nonzero__NonZero<isize.>_box_axiom_definition
   :skolemid skolem_internal_core__num__nonzero__NonZero<isize.>_box_axiom_definition
)))
(assert
 (forall ((x Poly)) (!
   (=>
    (has_type x (TYPE%core!num.nonzero.NonZero. $ ISIZE))
    (= x (Poly%core!num.nonzero.NonZero<isize.>. (%Poly%core!num.nonzero.NonZero<isize.>.
       x
   ))))
   :pattern ((has_type x (TYPE%core!num.nonzero.NonZero. $ ISIZE)))
   :qid internal_core__num__nonzero__NonZero<isize.>_unbox_axiom_definition
   :skolemid skolem_internal_core__num__nonzero__NonZero<isize.>_unbox_axiom_definition
)))
(assert
 (forall ((x core!num.nonzero.NonZero<isize.>.)) (!
   (has_type (Poly%core!num.nonzero.NonZero<isize.>. x) (TYPE%core!num.nonzero.NonZero.
     $ ISIZE
   ))
   :pattern ((has_type (Poly%core!num.nonzero.NonZero<isize.>. x) (TYPE%core!num.nonzero.NonZero.
      $ ISIZE
   )))
   :qid internal_core__num__nonzero__NonZero<isize.>_has_type_always_definition
   :skolemid skolem_internal_core__num__nonzero__NonZero<isize.>_has_type_always_definition
)))
(assert
 (forall ((x alloc!alloc.Global.)) (!
   (= x (%Poly%alloc!alloc.Global. (Poly%alloc!alloc.Global. x)))
   :pattern ((Poly%alloc!alloc.Global. x))
   :qid internal_alloc__alloc__Global_box_axiom_definition
   :skolemid skolem_internal_alloc__alloc__Global_box_axiom_definition
)))
(assert
 (forall ((x Poly)) (!
   (=>
    (has_type x TYPE%alloc!alloc.Global.)
    (= x (Poly%alloc!alloc.Global. (%Poly%alloc!alloc.Global. x)))
   )
   :pattern ((has_type x TYPE%alloc!alloc.Global.))
   :qid internal_alloc__alloc__Global_unbox_axiom_definition
   :skolemid skolem_internal_alloc__alloc__Global_unbox_axiom_definition
)))
(assert
 (forall ((x alloc!alloc.Global.)) (!
   (has_type (Poly%alloc!alloc.Global. x) TYPE%alloc!alloc.Global.)
   :pattern ((has_type (Poly%alloc!alloc.Global. x) TYPE%alloc!alloc.Global.))
   :qid internal_alloc__alloc__Global_has_type_always_definition
   :skolemid skolem_internal_alloc__alloc__Global_has_type_always_definition
)))
(assert
 (forall ((x alloc!string.String.)) (!
   (= x (%Poly%alloc!string.String. (Poly%alloc!string.String. x)))
   :pattern ((Poly%alloc!string.String. x))
   :qid internal_alloc__string__String_box_axiom_definition
   :skolemid skolem_internal_alloc__string__String_box_axiom_definition
)))
(assert
 (forall ((x Poly)) (!
   (=>
    (has_type x TYPE%alloc!string.String.)
    (= x (Poly%alloc!string.String. (%Poly%alloc!string.String. x)))
   )
   :pattern ((has_type x TYPE%alloc!string.String.))
   :qid internal_alloc__string__String_unbox_axiom_definition
   :skolemid skolem_internal_alloc__string__String_unbox_axiom_definition
)))
(assert
 (forall ((x alloc!string.String.)) (!
   (has_type (Poly%alloc!string.String. x) TYPE%alloc!string.String.)
   :pattern ((has_type (Poly%alloc!string.String. x) TYPE%alloc!string.String.))
   :qid internal_alloc__string__String_has_type_always_definition
   :skolemid skolem_internal_alloc__string__String_has_type_always_definition
)))
(assert
 (forall ((x vstd!map.Map<alloc!string.String./tuple%2<alloc!string.String./alloc!string.String.>.>.))
  (!
   (= x (%Poly%vstd!map.Map<alloc!string.String./tuple%2<alloc!string.String./alloc!string.String.>.>.
     (Poly%vstd!map.Map<alloc!string.String./tuple%2<alloc!string.String./alloc!string.String.>.>.
      x
   )))
   :pattern ((Poly%vstd!map.Map<alloc!string.String./tuple%2<alloc!string.String./alloc!string.String.>.>.
     x
   ))
   :qid internal_vstd__map__Map<alloc!string.String./tuple__2<alloc!string.String./alloc!string.String.>.>_box_axiom_definition
   :skolemid skolem_internal_vstd__map__Map<alloc!string.String./tuple__2<alloc!string.String./alloc!string.String.>.>_box_axiom_definition
)))
(assert
 (forall ((x Poly)) (!
   (=>
    (has_type x (TYPE%vstd!map.Map. $ TYPE%alloc!string.String. (DST $) (TYPE%tuple%2. $
       TYPE%alloc!string.String. $ TYPE%alloc!string.String.
    )))
    (= x (Poly%vstd!map.Map<alloc!string.String./tuple%2<alloc!string.String./alloc!string.String.>.>.
      (%Poly%vstd!map.Map<alloc!string.String./tuple%2<alloc!string.String./alloc!string.String.>.>.
       x
   ))))
   :pattern ((has_type x (TYPE%vstd!map.Map. $ TYPE%alloc!string.String. (DST $) (TYPE%tuple%2.
       $ TYPE%alloc!string.String. $ TYPE%alloc!string.String.
   ))))
   :qid internal_vstd__map__Map<alloc!string.String./tuple__2<alloc!string.String./alloc!string.String.>.>_unbox_axiom_definition
   :skolemid skolem_internal_vstd__map__Map<alloc!string.String./tuple__2<alloc!string.String./alloc!string.String.>.>_unbox_axiom_definition
)))
(assert
 (forall ((x vstd!map.Map<alloc!string.String./tuple%2<alloc!string.String./alloc!string.String.>.>.))
  (!
   (has_type (Poly%vstd!map.Map<alloc!string.String./tuple%2<alloc!string.String./alloc!string.String.>.>.
     x
    ) (TYPE%vstd!map.Map. $ TYPE%alloc!string.String. (DST $) (TYPE%tuple%2. $ TYPE%alloc!string.String.
      $ TYPE%alloc!string.String.
   )))
   :pattern ((has_type (Poly%vstd!map.Map<alloc!string.String./tuple%2<alloc!string.String./alloc!string.String.>.>.
      x
     ) (TYPE%vstd!map.Map. $ TYPE%alloc!string.String. (DST $) (TYPE%tuple%2. $ TYPE%alloc!string.String.
       $ TYPE%alloc!string.String.
   ))))
   :qid internal_vstd__map__Map<alloc!string.String./tuple__2<alloc!string.String./alloc!string.String.>.>_has_type_always_definition
   :skolemid skolem_internal_vstd__map__Map<alloc!string.String./tuple__2<alloc!string.String./alloc!string.String.>.>_has_type_always_definition
)))
(assert
 (forall ((x vstd!raw_ptr.Provenance.)) (!
   (= x (%Poly%vstd!raw_ptr.Provenance. (Poly%vstd!raw_ptr.Provenance. x)))
   :pattern ((Poly%vstd!raw_ptr.Provenance. x))
   :qid internal_vstd__raw_ptr__Provenance_box_axiom_definition
   :skolemid skolem_internal_vstd__raw_ptr__Provenance_box_axiom_definition
)))
(assert
 (forall ((x Poly)) (!
   (=>
    (has_type x TYPE%vstd!raw_ptr.Provenance.)
    (= x (Poly%vstd!raw_ptr.Provenance. (%Poly%vstd!raw_ptr.Provenance. x)))
   )
   :pattern ((has_type x TYPE%vstd!raw_ptr.Provenance.))
   :qid internal_vstd__raw_ptr__Provenance_unbox_axiom_definition
   :skolemid skolem_internal_vstd__raw_ptr__Provenance_unbox_axiom_definition
)))
(assert
 (forall ((x vstd!raw_ptr.Provenance.)) (!
   (has_type (Poly%vstd!raw_ptr.Provenance. x) TYPE%vstd!raw_ptr.Provenance.)
   :pattern ((has_type (Poly%vstd!raw_ptr.Provenance. x) TYPE%vstd!raw_ptr.Provenance.))
   :qid internal_vstd__raw_ptr__Provenance_has_type_always_definition
   :skolemid skolem_internal_vstd__raw_ptr__Provenance_has_type_always_definition
)))
(assert
 (forall ((x vstd!seq.Seq<u8.>.)) (!
   (= x (%Poly%vstd!seq.Seq<u8.>. (Poly%vstd!seq.Seq<u8.>. x)))
   :pattern ((Poly%vstd!seq.Seq<u8.>. x))
   :qid internal_vstd__seq__Seq<u8.>_box_axiom_definition
   :skolemid skolem_internal_vstd__seq__Seq<u8.>_box_axiom_definition
)))
(assert
 (forall ((x Poly)) (!
   (=>
    (has_type x (TYPE%vstd!seq.Seq. $ (UINT 8)))
    (= x (Poly%vstd!seq.Seq<u8.>. (%Poly%vstd!seq.Seq<u8.>. x)))
   )
   :pattern ((has_type x (TYPE%vstd!seq.Seq. $ (UINT 8))))
   :qid internal_vstd__seq__Seq<u8.>_unbox_axiom_definition
   :skolemid skolem_internal_vstd__seq__Seq<u8.>_unbox_axiom_definition
)))
(assert
 (forall ((x vstd!seq.Seq<u8.>.)) (!
   (has_type (Poly%vstd!seq.Seq<u8.>. x) (TYPE%vstd!seq.Seq. $ (UINT 8)))
   :pattern ((has_type (Poly%vstd!seq.Seq<u8.>. x) (TYPE%vstd!seq.Seq. $ (UINT 8))))
   :qid internal_vstd__seq__Seq<u8.>_has_type_always_definition
   :skolemid skolem_internal_vstd__seq__Seq<u8.>_has_type_always_definition
)))
(assert
 (forall ((x vstd!seq.Seq<char.>.)) (!
   (= x (%Poly%vstd!seq.Seq<char.>. (Poly%vstd!seq.Seq<char.>. x)))
   :pattern ((Poly%vstd!seq.Seq<char.>. x))
   :qid internal_vstd__seq__Seq<char.>_box_axiom_definition
   :skolemid skolem_internal_vstd__seq__Seq<char.>_box_axiom_definition
)))
(assert
 (forall ((x Poly)) (!
   (=>
    (has_type x (TYPE%vstd!seq.Seq. $ CHAR))
    (= x (Poly%vstd!seq.Seq<char.>. (%Poly%vstd!seq.Seq<char.>. x)))
   )
   :pattern ((has_type x (TYPE%vstd!seq.Seq. $ CHAR)))
   :qid internal_vstd__seq__Seq<char.>_unbox_axiom_definition
   :skolemid skolem_internal_vstd__seq__Seq<char.>_unbox_axiom_definition
)))
(assert
 (forall ((x vstd!seq.Seq<char.>.)) (!
   (has_type (Poly%vstd!seq.Seq<char.>. x) (TYPE%vstd!seq.Seq. $ CHAR))
   :pattern ((has_type (Poly%vstd!seq.Seq<char.>. x) (TYPE%vstd!seq.Seq. $ CHAR)))
   :qid internal_vstd__seq__Seq<char.>_has_type_always_definition
   :skolemid skolem_internal_vstd__seq__Seq<char.>_has_type_always_definition
)))
(assert
 (forall ((x vstd!seq.Seq<vstd!seq.Seq<u8.>.>.)) (!
   (= x (%Poly%vstd!seq.Seq<vstd!seq.Seq<u8.>.>. (Poly%vstd!seq.Seq<vstd!seq.Seq<u8.>.>.
      x
   )))
   :pattern ((Poly%vstd!seq.Seq<vstd!seq.Seq<u8.>.>. x))
   :qid internal_vstd__seq__Seq<vstd!seq.Seq<u8.>.>_box_axiom_definition
   :skolemid skolem_internal_vstd__seq__Seq<vstd!seq.Seq<u8.>.>_box_axiom_definition
)))
(assert
 (forall ((x Poly)) (!
   (=>
    (has_type x (TYPE%vstd!seq.Seq. $ (TYPE%vstd!seq.Seq. $ (UINT 8))))
    (= x (Poly%vstd!seq.Seq<vstd!seq.Seq<u8.>.>. (%Poly%vstd!seq.Seq<vstd!seq.Seq<u8.>.>.
       x
   ))))
   :pattern ((has_type x (TYPE%vstd!seq.Seq. $ (TYPE%vstd!seq.Seq. $ (UINT 8)))))
   :qid internal_vstd__seq__Seq<vstd!seq.Seq<u8.>.>_unbox_axiom_definition
   :skolemid skolem_internal_vstd__seq__Seq<vstd!seq.Seq<u8.>.>_unbox_axiom_definition
)))
(assert
 (forall ((x vstd!seq.Seq<vstd!seq.Seq<u8.>.>.)) (!
   (has_type (Poly%vstd!seq.Seq<vstd!seq.Seq<u8.>.>. x) (TYPE%vstd!seq.Seq. $ (TYPE%vstd!seq.Seq.
      $ (UINT 8)
   )))
   :pattern ((has_type (Poly%vstd!seq.Seq<vstd!seq.Seq<u8.>.>. x) (TYPE%vstd!seq.Seq. $
      (TYPE%vstd!seq.Seq. $ (UINT 8))
   )))
   :qid internal_vstd__seq__Seq<vstd!seq.Seq<u8.>.>_has_type_always_definition
   :skolemid skolem_internal_vstd__seq__Seq<vstd!seq.Seq<u8.>.>_has_type_always_definition
)))
(assert
 (forall ((x std!collections.hash.map.HashMap<alloc!string.String./tuple%2<alloc!string.String./alloc!string.String.>./std!hash.random.RandomState./alloc!alloc.Global.>.))
  (!
   (= x (%Poly%std!collections.hash.map.HashMap<alloc!string.String./tuple%2<alloc!string.String./alloc!string.String.>./std!hash.random.RandomState./alloc!alloc.Global.>.
     (Poly%std!collections.hash.map.HashMap<alloc!string.String./tuple%2<alloc!string.String./alloc!string.String.>./std!hash.random.RandomState./alloc!alloc.Global.>.
      x
   )))
   :pattern ((Poly%std!collections.hash.map.HashMap<alloc!string.String./tuple%2<alloc!string.String./alloc!string.String.>./std!hash.random.RandomState./alloc!alloc.Global.>.
     x
   ))
   :qid internal_std__collections__hash__map__HashMap<alloc!string.String./tuple__2<alloc!string.String./alloc!string.String.>./std!hash.random.RandomState./alloc!alloc.Global.>_box_axiom_definition
   :skolemid skolem_internal_std__collections__hash__map__HashMap<alloc!string.String./tuple__2<alloc!string.String./alloc!string.String.>./std!hash.random.RandomState./alloc!alloc.Global.>_box_axiom_definition
)))
(assert
 (forall ((x Poly)) (!
   (=>
    (has_type x (TYPE%std!collections.hash.map.HashMap. $ TYPE%alloc!string.String. (DST
       $
      ) (TYPE%tuple%2. $ TYPE%alloc!string.String. $ TYPE%alloc!string.String.) $ TYPE%std!hash.random.RandomState.
      $ TYPE%alloc!alloc.Global.
    ))
    (= x (Poly%std!collections.hash.map.HashMap<alloc!string.String./tuple%2<alloc!string.String./alloc!string.String.>./std!hash.random.RandomState./alloc!alloc.Global.>.
      (%Poly%std!collections.hash.map.HashMap<alloc!string.String./tuple%2<alloc!string.String./alloc!string.String.>./std!hash.random.RandomState./alloc!alloc.Global.>.
       x
   ))))
   :pattern ((has_type x (TYPE%std!collections.hash.map.HashMap. $ TYPE%alloc!string.String.
      (DST $) (TYPE%tuple%2. $ TYPE%alloc!string.String. $ TYPE%alloc!string.String.) $
      TYPE%std!hash.random.RandomState. $ TYPE%alloc!alloc.Global.
   )))
   :qid internal_std__collections__hash__map__HashMap<alloc!string.String./tuple__2<alloc!string.String./alloc!string.String.>./std!hash.random.RandomState./alloc!alloc.Global.>_unbox_axiom_definition
   :skolemid skolem_internal_std__collections__hash__map__HashMap<alloc!string.String./tuple__2<alloc!string.String./alloc!string.String.>./std!hash.random.RandomState./alloc!alloc.Global.>_unbox_axiom_definition
)))
(assert
 (forall ((x std!collections.hash.map.HashMap<alloc!string.String./tuple%2<alloc!string.String./alloc!string.String.>./std!hash.random.RandomState./alloc!alloc.Global.>.))
  (!
   (has_type (Poly%std!collections.hash.map.HashMap<alloc!string.String./tuple%2<alloc!string.String./alloc!string.String.>./std!hash.random.RandomState./alloc!alloc.Global.>.
     x
    ) (TYPE%std!collections.hash.map.HashMap. $ TYPE%alloc!string.String. (DST $) (TYPE%tuple%2.
      $ TYPE%alloc!string.String. $ TYPE%alloc!string.String.
     ) $ TYPE%std!hash.random.RandomState. $ TYPE%alloc!alloc.Global.
   ))
   :pattern ((has_type (Poly%std!collections.hash.map.HashMap<alloc!string.String./tuple%2<alloc!string.String./alloc!string.String.>./std!hash.random.RandomState./alloc!alloc.Global.>.
      x
     ) (TYPE%std!collections.hash.map.HashMap. $ TYPE%alloc!string.String. (DST $) (TYPE%tuple%2.
       $ TYPE%alloc!string.String. $ TYPE%alloc!string.String.
      ) $ TYPE%std!hash.random.RandomState. $ TYPE%alloc!alloc.Global.
   )))
   :qid internal_std__collections__hash__map__HashMap<alloc!string.String./tuple__2<alloc!string.String./alloc!string.String.>./std!hash.random.RandomState./alloc!alloc.Global.>_has_type_always_definition
   :skolemid skolem_internal_std__collections__hash__map__HashMap<alloc!string.String./tuple__2<alloc!string.String./alloc!string.String.>./std!hash.random.RandomState./alloc!alloc.Global.>_has_type_always_definition
)))
(assert
 (forall ((x std!hash.random.DefaultHasher.)) (!
   (= x (%Poly%std!hash.random.DefaultHasher. (Poly%std!hash.random.DefaultHasher. x)))
   :pattern ((Poly%std!hash.random.DefaultHasher. x))
   :qid internal_std__hash__random__DefaultHasher_box_axiom_definition
   :skolemid skolem_internal_std__hash__random__DefaultHasher_box_axiom_definition
)))
(assert
 (forall ((x Poly)) (!
   (=>
    (has_type x TYPE%std!hash.random.DefaultHasher.)
    (= x (Poly%std!hash.random.DefaultHasher. (%Poly%std!hash.random.DefaultHasher. x)))
   )
   :pattern ((has_type x TYPE%std!hash.random.DefaultHasher.))
   :qid internal_std__hash__random__DefaultHasher_unbox_axiom_definition
   :skolemid skolem_internal_std__hash__random__DefaultHasher_unbox_axiom_definition
)))
(assert
 (forall ((x std!hash.random.DefaultHasher.)) (!
   (has_type (Poly%std!hash.random.DefaultHasher. x) TYPE%std!hash.random.DefaultHasher.)
   :pattern ((has_type (Poly%std!hash.random.DefaultHasher. x) TYPE%std!hash.random.DefaultHasher.))
   :qid internal_std__hash__random__DefaultHasher_has_type_always_definition
   :skolemid skolem_internal_std__hash__random__DefaultHasher_has_type_always_definition
)))
(assert
 (forall ((x std!hash.random.RandomState.)) (!
   (= x (%Poly%std!hash.random.RandomState. (Poly%std!hash.random.RandomState. x)))
   :pattern ((Poly%std!hash.random.RandomState. x))
   :qid internal_std__hash__random__RandomState_box_axiom_definition
   :skolemid skolem_internal_std__hash__random__RandomState_box_axiom_definition
)))
(assert
 (forall ((x Poly)) (!
   (=>
    (has_type x TYPE%std!hash.random.RandomState.)
    (= x (Poly%std!hash.random.RandomState. (%Poly%std!hash.random.RandomState. x)))
   )
   :pattern ((has_type x TYPE%std!hash.random.RandomState.))
   :qid internal_std__hash__random__RandomState_unbox_axiom_definition
   :skolemid skolem_internal_std__hash__random__RandomState_unbox_axiom_definition
)))
(assert
 (forall ((x std!hash.random.RandomState.)) (!
   (has_type (Poly%std!hash.random.RandomState. x) TYPE%std!hash.random.RandomState.)
   :pattern ((has_type (Poly%std!hash.random.RandomState. x) TYPE%std!hash.random.RandomState.))
   :qid internal_std__hash__random__RandomState_has_type_always_definition
   :skolemid skolem_internal_std__hash__random__RandomState_has_type_always_definition
)))
(assert
 (forall ((x slice%<u8.>.)) (!
   (= x (%Poly%slice%<u8.>. (Poly%slice%<u8.>. x)))
   :pattern ((Poly%slice%<u8.>. x))
   :qid internal_crate__slice__<u8.>_box_axiom_definition
   :skolemid skolem_internal_crate__slice__<u8.>_box_axiom_definition
)))
(assert
 (forall ((x Poly)) (!
   (=>
    (has_type x (SLICE $ (UINT 8)))
    (= x (Poly%slice%<u8.>. (%Poly%slice%<u8.>. x)))
   )
   :pattern ((has_type x (SLICE $ (UINT 8))))
   :qid internal_crate__slice__<u8.>_unbox_axiom_definition
   :skolemid skolem_internal_crate__slice__<u8.>_unbox_axiom_definition
)))
(assert
 (forall ((x slice%<u8.>.)) (!
   (has_type (Poly%slice%<u8.>. x) (SLICE $ (UINT 8)))
   :pattern ((has_type (Poly%slice%<u8.>. x) (SLICE $ (UINT 8))))
   :qid internal_crate__slice__<u8.>_has_type_always_definition
   :skolemid skolem_internal_crate__slice__<u8.>_has_type_always_definition
)))
(assert
 (forall ((x strslice%.)) (!
   (= x (%Poly%strslice%. (Poly%strslice%. x)))
   :pattern ((Poly%strslice%. x))
   :qid internal_crate__strslice___box_axiom_definition
   :skolemid skolem_internal_crate__strslice___box_axiom_definition
)))
(assert
 (forall ((x Poly)) (!
   (=>
    (has_type x STRSLICE)
    (= x (Poly%strslice%. (%Poly%strslice%. x)))
   )
   :pattern ((has_type x STRSLICE))
   :qid internal_crate__strslice___unbox_axiom_definition
   :skolemid skolem_internal_crate__strslice___unbox_axiom_definition
)))
(assert
 (forall ((x strslice%.)) (!
   (has_type (Poly%strslice%. x) STRSLICE)
   :pattern ((has_type (Poly%strslice%. x) STRSLICE))
   :qid internal_crate__strslice___has_type_always_definition
   :skolemid skolem_internal_crate__strslice___has_type_always_definition
)))
(assert
 (forall ((x core!ops.range.Bound.)) (!
   (= x (%Poly%core!ops.range.Bound. (Poly%core!ops.range.Bound. x)))
   :pattern ((Poly%core!ops.range.Bound. x))
   :qid internal_core__ops__range__Bound_box_axiom_definition
   :skolemid skolem_internal_core__ops__range__Bound_box_axiom_definition
)))
(assert
 (forall ((T&. Dcr) (T& Type) (x Poly)) (!
   (=>
    (has_type x (TYPE%core!ops.range.Bound. T&. T&))
    (= x (Poly%core!ops.range.Bound. (%Poly%core!ops.range.Bound. x)))
   )
   :pattern ((has_type x (TYPE%core!ops.range.Bound. T&. T&)))
   :qid internal_core__ops__range__Bound_unbox_axiom_definition
   :skolemid skolem_internal_core__ops__range__Bound_unbox_axiom_definition
)))
(assert
 (forall ((T&. Dcr) (T& Type) (_0! Poly)) (!
   (=>
    (has_type _0! T&)
    (has_type (Poly%core!ops.range.Bound. (core!ops.range.Bound./Included _0!)) (TYPE%core!ops.range.Bound.
      T&. T&
   )))
   :pattern ((has_type (Poly%core!ops.range.Bound. (core!ops.range.Bound./Included _0!))
     (TYPE%core!ops.range.Bound. T&. T&)
   ))
   :qid internal_core!ops.range.Bound./Included_constructor_definition
   :skolemid skolem_internal_core!ops.range.Bound./Included_constructor_definition
)))
(assert
 (forall ((T&. Dcr) (T& Type) (x core!ops.range.Bound.)) (!
   (=>
    (is-core!ops.range.Bound./Included x)
    (= (core!ops.range.Bound./Included/0 T&. T& x) (core!ops.range.Bound./Included/?0 x))
   )
   :pattern ((core!ops.range.Bound./Included/0 T&. T& x))
   :qid internal_core!ops.range.Bound./Included/0_accessor_definition
   :skolemid skolem_internal_core!ops.range.Bound./Included/0_accessor_definition
)))
(assert
 (forall ((T&. Dcr) (T& Type) (x Poly)) (!
   (=>
    (has_type x (TYPE%core!ops.range.Bound. T&. T&))
    (has_type (core!ops.range.Bound./Included/0 T&. T& (%Poly%core!ops.range.Bound. x))
     T&
   ))
   :pattern ((core!ops.range.Bound./Included/0 T&. T& (%Poly%core!ops.range.Bound. x))
    (has_type x (TYPE%core!ops.range.Bound. T&. T&))
   )
   :qid internal_core!ops.range.Bound./Included/0_invariant_definition
   :skolemid skolem_internal_core!ops.range.Bound./Included/0_invariant_definition
)))
(assert
 (forall ((T&. Dcr) (T& Type) (_0! Poly)) (!
   (=>
    (has_type _0! T&)
    (has_type (Poly%core!ops.range.Bound. (core!ops.range.Bound./Excluded _0!)) (TYPE%core!ops.range.Bound.
      T&. T&
   )))
   :pattern ((has_type (Poly%core!ops.range.Bound. (core!ops.range.Bound./Excluded _0!))
     (TYPE%core!ops.range.Bound. T&. T&)
   ))
   :qid internal_core!ops.range.Bound./Excluded_constructor_definition
   :skolemid skolem_internal_core!ops.range.Bound./Excluded_constructor_definition
)))
(assert
 (forall ((T&. Dcr) (T& Type) (x core!ops.range.Bound.)) (!
   (=>
    (is-core!ops.range.Bound./Excluded x)
    (= (core!ops.range.Bound./Excluded/0 T&. T& x) (core!ops.range.Bound./Excluded/?0 x))
   )
   :pattern ((core!ops.range.Bound./Excluded/0 T&. T& x))
   :qid internal_core!ops.range.Bound./Excluded/0_accessor_definition
   :skolemid skolem_internal_core!ops.range.Bound./Excluded/0_accessor_definition
)))
(assert
 (forall ((T&. Dcr) (T& Type) (x Poly)) (!
   (=>
    (has_type x (TYPE%core!ops.range.Bound. T&. T&))
    (has_type (core!ops.range.Bound./Excluded/0 T&. T& (%Poly%core!ops.range.Bound. x))
     T&
   ))
   :pattern ((core!ops.range.Bound./Excluded/0 T&. T& (%Poly%core!ops.range.Bound. x))
    (has_type x (TYPE%core!ops.range.Bound. T&. T&))
   )
   :qid internal_core!ops.range.Bound./Excluded/0_invariant_definition
   :skolemid skolem_internal_core!ops.range.Bound./Excluded/0_invariant_definition
)))
(assert
 (forall ((T&. Dcr) (T& Type)) (!
   (has_type (Poly%core!ops.range.Bound. core!ops.range.Bound./Unbounded) (TYPE%core!ops.range.Bound.
     T&. T&
   ))
   :pattern ((has_type (Poly%core!ops.range.Bound. core!ops.range.Bound./Unbounded) (TYPE%core!ops.range.Bound.
      T&. T&
   )))
   :qid internal_core!ops.range.Bound./Unbounded_constructor_definition
   :skolemid skolem_internal_core!ops.range.Bound./Unbounded_constructor_definition
)))
(assert
 (forall ((T&. Dcr) (T& Type) (x core!ops.range.Bound.)) (!
   (=>
    (is-core!ops.range.Bound./Included x)
    (height_lt (height (core!ops.range.Bound./Included/0 T&. T& x)) (height (Poly%core!ops.range.Bound.
       x
   ))))
   :pattern ((height (core!ops.range.Bound./Included/0 T&. T& x)))
   :qid prelude_datatype_height_core!ops.range.Bound./Included/0
   :skolemid skolem_prelude_datatype_height_core!ops.range.Bound./Included/0
)))
(assert
 (forall ((T&. Dcr) (T& Type) (x core!ops.range.Bound.)) (!
   (=>
    (is-core!ops.range.Bound./Excluded x)
    (height_lt (height (core!ops.range.Bound./Excluded/0 T&. T& x)) (height (Poly%core!ops.range.Bound.
       x
   ))))
   :pattern ((height (core!ops.range.Bound./Excluded/0 T&. T& x)))
   :qid prelude_datatype_height_core!ops.range.Bound./Excluded/0
   :skolemid skolem_prelude_datatype_height_core!ops.range.Bound./Excluded/0
)))
(assert
 (forall ((x vstd!raw_ptr.PtrData.)) (!
   (= x (%Poly%vstd!raw_ptr.PtrData. (Poly%vstd!raw_ptr.PtrData. x)))
   :pattern ((Poly%vstd!raw_ptr.PtrData. x))
   :qid internal_vstd__raw_ptr__PtrData_box_axiom_definition
   :skolemid skolem_internal_vstd__raw_ptr__PtrData_box_axiom_definition
)))
(assert
 (forall ((T&. Dcr) (T& Type) (x Poly)) (!
   (=>
    (has_type x (TYPE%vstd!raw_ptr.PtrData. T&. T&))
    (= x (Poly%vstd!raw_ptr.PtrData. (%Poly%vstd!raw_ptr.PtrData. x)))
   )
   :pattern ((has_type x (TYPE%vstd!raw_ptr.PtrData. T&. T&)))
   :qid internal_vstd__raw_ptr__PtrData_unbox_axiom_definition
   :skolemid skolem_internal_vstd__raw_ptr__PtrData_unbox_axiom_definition
)))
(assert
 (forall ((T&. Dcr) (T& Type) (_addr! Int) (_provenance! vstd!raw_ptr.Provenance.) (
    _metadata! Poly
   )
  ) (!
   (=>
    (and
     (uInv SZ _addr!)
     (has_type _metadata! (pointee_metadata% T&.))
    )
    (has_type (Poly%vstd!raw_ptr.PtrData. (vstd!raw_ptr.PtrData./PtrData _addr! _provenance!
       _metadata!
      )
     ) (TYPE%vstd!raw_ptr.PtrData. T&. T&)
   ))
   :pattern ((has_type (Poly%vstd!raw_ptr.PtrData. (vstd!raw_ptr.PtrData./PtrData _addr!
       _provenance! _metadata!
      )
     ) (TYPE%vstd!raw_ptr.PtrData. T&. T&)
   ))
   :qid internal_vstd!raw_ptr.PtrData./PtrData_constructor_definition
   :skolemid skolem_internal_vstd!raw_ptr.PtrData./PtrData_constructor_definition
)))
(assert
 (forall ((x vstd!raw_ptr.PtrData.)) (!
   (= (vstd!raw_ptr.PtrData./PtrData/addr x) (vstd!raw_ptr.PtrData./PtrData/?addr x))
   :pattern ((vstd!raw_ptr.PtrData./PtrData/addr x))
   :qid internal_vstd!raw_ptr.PtrData./PtrData/addr_accessor_definition
   :skolemid skolem_internal_vstd!raw_ptr.PtrData./PtrData/addr_accessor_definition
)))
(assert
 (forall ((T&. Dcr) (T& Type) (x Poly)) (!
   (=>
    (has_type x (TYPE%vstd!raw_ptr.PtrData. T&. T&))
    (uInv SZ (vstd!raw_ptr.PtrData./PtrData/addr (%Poly%vstd!raw_ptr.PtrData. x)))
   )
   :pattern ((vstd!raw_ptr.PtrData./PtrData/addr (%Poly%vstd!raw_ptr.PtrData. x)) (has_type
     x (TYPE%vstd!raw_ptr.PtrData. T&. T&)
   ))
   :qid internal_vstd!raw_ptr.PtrData./PtrData/addr_invariant_definition
   :skolemid skolem_internal_vstd!raw_ptr.PtrData./PtrData/addr_invariant_definition
)))
(assert
 (forall ((x vstd!raw_ptr.PtrData.)) (!
   (= (vstd!raw_ptr.PtrData./PtrData/provenance x) (vstd!raw_ptr.PtrData./PtrData/?provenance
     x
   ))
   :pattern ((vstd!raw_ptr.PtrData./PtrData/provenance x))
   :qid internal_vstd!raw_ptr.PtrData./PtrData/provenance_accessor_definition
   :skolemid skolem_internal_vstd!raw_ptr.PtrData./PtrData/provenance_accessor_definition
)))
(assert
 (forall ((x vstd!raw_ptr.PtrData.)) (!
   (= (vstd!raw_ptr.PtrData./PtrData/metadata x) (vstd!raw_ptr.PtrData./PtrData/?metadata
     x
   ))
   :pattern ((vstd!raw_ptr.PtrData./PtrData/metadata x))
   :qid internal_vstd!raw_ptr.PtrData./PtrData/metadata_accessor_definition
   :skolemid skolem_internal_vstd!raw_ptr.PtrData./PtrData/metadata_accessor_definition
)))
(assert
 (forall ((T&. Dcr) (T& Type) (x Poly)) (!
   (=>
    (has_type x (TYPE%vstd!raw_ptr.PtrData. T&. T&))
    (has_type (vstd!raw_ptr.PtrData./PtrData/metadata (%Poly%vstd!raw_ptr.PtrData. x))
     (pointee_metadata% T&.)
   ))
   :pattern ((vstd!raw_ptr.PtrData./PtrData/metadata (%Poly%vstd!raw_ptr.PtrData. x))
    (has_type x (TYPE%vstd!raw_ptr.PtrData. T&. T&))
   )
   :qid internal_vstd!raw_ptr.PtrData./PtrData/metadata_invariant_definition
   :skolemid skolem_internal_vstd!raw_ptr.PtrData./PtrData/metadata_invariant_definition
)))
(assert
 (forall ((x tuple%0.)) (!
   (= x (%Poly%tuple%0. (Poly%tuple%0. x)))
   :pattern ((Poly%tuple%0. x))
   :qid internal_crate__tuple__0_box_axiom_definition
   :skolemid skolem_internal_crate__tuple__0_box_axiom_definition
)))
(assert
 (forall ((x Poly)) (!
   (=>
    (has_type x TYPE%tuple%0.)
    (= x (Poly%tuple%0. (%Poly%tuple%0. x)))
   )
   :pattern ((has_type x TYPE%tuple%0.))
   :qid internal_crate__tuple__0_unbox_axiom_definition
   :skolemid skolem_internal_crate__tuple__0_unbox_axiom_definition
)))
(assert
 (forall ((x tuple%0.)) (!
   (has_type (Poly%tuple%0. x) TYPE%tuple%0.)
   :pattern ((has_type (Poly%tuple%0. x) TYPE%tuple%0.))
   :qid internal_crate__tuple__0_has_type_always_definition
   :skolemid skolem_internal_crate__tuple__0_has_type_always_definition
)))
(assert
 (forall ((x tuple%2.)) (!
   (= x (%Poly%tuple%2. (Poly%tuple%2. x)))
   :pattern ((Poly%tuple%2. x))
   :qid internal_crate__tuple__2_box_axiom_definition
   :skolemid skolem_internal_crate__tuple__2_box_axiom_definition
)))
(assert
 (forall ((T%0&. Dcr) (T%0& Type) (T%1&. Dcr) (T%1& Type) (x Poly)) (!
   (=>
    (has_type x (TYPE%tuple%2. T%0&. T%0& T%1&. T%1&))
    (= x (Poly%tuple%2. (%Poly%tuple%2. x)))
   )
   :pattern ((has_type x (TYPE%tuple%2. T%0&. T%0& T%1&. T%1&)))
   :qid internal_crate__tuple__2_unbox_axiom_definition
   :skolemid skolem_internal_crate__tuple__2_unbox_axiom_definition
)))
(assert
 (forall ((T%0&. Dcr) (T%0& Type) (T%1&. Dcr) (T%1& Type) (_0! Poly) (_1! Poly)) (!
   (=>
    (and
     (has_type _0! T%0&)
     (has_type _1! T%1&)
    )
    (has_type (Poly%tuple%2. (tuple%2./tuple%2 _0! _1!)) (TYPE%tuple%2. T%0&. T%0& T%1&.
      T%1&
   )))
   :pattern ((has_type (Poly%tuple%2. (tuple%2./tuple%2 _0! _1!)) (TYPE%tuple%2. T%0&.
      T%0& T%1&. T%1&
   )))
   :qid internal_tuple__2./tuple__2_constructor_definition
   :skolemid skolem_internal_tuple__2./tuple__2_constructor_definition
)))
(assert
 (forall ((x tuple%2.)) (!
   (= (tuple%2./tuple%2/0 x) (tuple%2./tuple%2/?0 x))
   :pattern ((tuple%2./tuple%2/0 x))
   :qid internal_tuple__2./tuple__2/0_accessor_definition
   :skolemid skolem_internal_tuple__2./tuple__2/0_accessor_definition
)))
(assert
 (forall ((T%0&. Dcr) (T%0& Type) (T%1&. Dcr) (T%1& Type) (x Poly)) (!
   (=>
    (has_type x (TYPE%tuple%2. T%0&. T%0& T%1&. T%1&))
    (has_type (tuple%2./tuple%2/0 (%Poly%tuple%2. x)) T%0&)
   )
   :pattern ((tuple%2./tuple%2/0 (%Poly%tuple%2. x)) (has_type x (TYPE%tuple%2. T%0&. T%0&
      T%1&. T%1&
   )))
   :qid internal_tuple__2./tuple__2/0_invariant_definition
   :skolemid skolem_internal_tuple__2./tuple__2/0_invariant_definition
)))
(assert
 (forall ((x tuple%2.)) (!
   (= (tuple%2./tuple%2/1 x) (tuple%2./tuple%2/?1 x))
   :pattern ((tuple%2./tuple%2/1 x))
   :qid internal_tuple__2./tuple__2/1_accessor_definition
   :skolemid skolem_internal_tuple__2./tuple__2/1_accessor_definition
)))
(assert
 (forall ((T%0&. Dcr) (T%0& Type) (T%1&. Dcr) (T%1& Type) (x Poly)) (!
   (=>
    (has_type x (TYPE%tuple%2. T%0&. T%0& T%1&. T%1&))
    (has_type (tuple%2./tuple%2/1 (%Poly%tuple%2. x)) T%1&)
   )
   :pattern ((tuple%2./tuple%2/1 (%Poly%tuple%2. x)) (has_type x (TYPE%tuple%2. T%0&. T%0&
      T%1&. T%1&
   )))
   :qid internal_tuple__2./tuple__2/1_invariant_definition
   :skolemid skolem_internal_tuple__2./tuple__2/1_invariant_definition
)))
(assert
 (forall ((x tuple%2.)) (!
   (=>
    (is-tuple%2./tuple%2 x)
    (height_lt (height (tuple%2./tuple%2/0 x)) (height (Poly%tuple%2. x)))
   )
   :pattern ((height (tuple%2./tuple%2/0 x)))
   :qid prelude_datatype_height_tuple%2./tuple%2/0
   :skolemid skolem_prelude_datatype_height_tuple%2./tuple%2/0
)))
(assert
 (forall ((x tuple%2.)) (!
   (=>
    (is-tuple%2./tuple%2 x)
    (height_lt (height (tuple%2./tuple%2/1 x)) (height (Poly%tuple%2. x)))
   )
   :pattern ((height (tuple%2./tuple%2/1 x)))
   :qid prelude_datatype_height_tuple%2./tuple%2/1
   :skolemid skolem_prelude_datatype_height_tuple%2./tuple%2/1
)))
(assert
 (forall ((T%0&. Dcr) (T%0& Type) (T%1&. Dcr) (T%1& Type) (deep Bool) (x Poly) (y Poly))
  (!
   (=>
    (and
     (has_type x (TYPE%tuple%2. T%0&. T%0& T%1&. T%1&))
     (has_type y (TYPE%tuple%2. T%0&. T%0& T%1&. T%1&))
     (ext_eq deep T%0& (tuple%2./tuple%2/0 (%Poly%tuple%2. x)) (tuple%2./tuple%2/0 (%Poly%tuple%2.
        y
     )))
     (ext_eq deep T%1& (tuple%2./tuple%2/1 (%Poly%tuple%2. x)) (tuple%2./tuple%2/1 (%Poly%tuple%2.
        y
    ))))
    (ext_eq deep (TYPE%tuple%2. T%0&. T%0& T%1&. T%1&) x y)
   )
   :pattern ((ext_eq deep (TYPE%tuple%2. T%0&. T%0& T%1&. T%1&) x y))
   :qid internal_tuple__2./tuple__2_ext_equal_definition
   :skolemid skolem_internal_tuple__2./tuple__2_ext_equal_definition
)))
(declare-fun array_new (Dcr Type Int %%Function%%) Poly)
(declare-fun array_index (Dcr Type Dcr Type %%Function%% Poly) Poly)
(assert
 (forall ((Tdcr Dcr) (T Type) (N Int) (Fn %%Function%%)) (!
   (= (array_new Tdcr T N Fn) (Poly%array%. Fn))
   :pattern ((array_new Tdcr T N Fn))
   :qid prelude_array_new
   :skolemid skolem_prelude_array_new
)))
(declare-fun %%apply%%1 (%%Function%% Int) Poly)
(assert
 (forall ((Tdcr Dcr) (T Type) (N Int) (Fn %%Function%%)) (!
   (=>
    (forall ((i Int)) (!
      (=>
       (and
        (<= 0 i)
        (< i N)
       )
       (has_type (%%apply%%1 Fn i) T)
      )
      :pattern ((has_type (%%apply%%1 Fn i) T))
      :qid prelude_has_type_array_elts
      :skolemid skolem_prelude_has_type_array_elts
    ))
    (has_type (array_new Tdcr T N Fn) (ARRAY Tdcr T $ (CONST_INT N)))
   )
   :pattern ((array_new Tdcr T N Fn))
   :qid prelude_has_type_array_new
   :skolemid skolem_prelude_has_type_array_new
)))
(assert
 (forall ((Tdcr Dcr) (T Type) (Nd Dcr) (Ndcr Dcr) (N Type) (Fn %%Function%%) (i Poly))
  (!
   (=>
    (and
     (has_type (Poly%array%. Fn) (ARRAY Tdcr T Ndcr N))
     (has_type i INT)
    )
    (has_type (array_index Tdcr T Nd N Fn i) T)
   )
   :pattern ((array_index Tdcr T Nd N Fn i) (has_type (Poly%array%. Fn) (ARRAY Tdcr T Ndcr
      N
   )))
   :qid prelude_has_type_array_index
   :skolemid skolem_prelude_has_type_array_index
)))
(assert
 (!
  (forall ((Tdcr Dcr) (T Type) (N Int) (Fn %%Function%%) (i Int)) (!
    (= (array_index Tdcr T $ (CONST_INT N) Fn (I i)) (%%apply%%1 Fn i))
    :pattern ((array_new Tdcr T N Fn) (%%apply%%1 Fn i))
    :qid prelude_array_index_trigger
    :skolemid skolem_prelude_array_index_trigger
  ))
  :named
  prelude_axiom_array_index
))
(declare-fun str%strslice_len (strslice%.) Int)
(declare-fun str%strslice_get_char (strslice%. Int) Int)
(declare-fun str%new_strlit (Int) strslice%.)
(declare-fun str%from_strlit (strslice%.) Int)
(assert
 (forall ((x Int)) (!
   (= (str%from_strlit (str%new_strlit x)) x)
   :pattern ((str%new_strlit x))
   :qid prelude_strlit_injective
   :skolemid skolem_prelude_strlit_injective
)))
(assert
 (forall ((x fndef) (Self%&. Dcr) (Self%& Type) (Idx&. Dcr) (Idx& Type)) (!
   (has_type (F x) (FNDEF%core!ops.index.Index.index. Self%&. Self%& Idx&. Idx&))
   :pattern ((has_type (F x) (FNDEF%core!ops.index.Index.index. Self%&. Self%& Idx&. Idx&)))
   :qid prelude_has_type_fndef_FNDEF%core!ops.index.Index.index.
   :skolemid skolem_prelude_has_type_fndef_FNDEF%core!ops.index.Index.index.
)))
(assert
 (forall ((x fndef) (Self%&. Dcr) (Self%& Type) (T&. Dcr) (T& Type)) (!
   (has_type (F x) (FNDEF%core!slice.index.SliceIndex.index. Self%&. Self%& T&. T&))
   :pattern ((has_type (F x) (FNDEF%core!slice.index.SliceIndex.index. Self%&. Self%& T&.
      T&
   )))
   :qid prelude_has_type_fndef_FNDEF%core!slice.index.SliceIndex.index.
   :skolemid skolem_prelude_has_type_fndef_FNDEF%core!slice.index.SliceIndex.index.
)))

;; Trait-Bounds
(assert
 (forall ((Self%&. Dcr) (Self%& Type) (T&. Dcr) (T& Type)) (!
   (=>
    (tr_bound%vstd!array.ArrayAdditionalSpecFns. Self%&. Self%& T&. T&)
    (and
     (tr_bound%vstd!view.View. Self%&. Self%&)
     (and
      (= $ (proj%%vstd!view.View./V Self%&. Self%&))
      (= (TYPE%vstd!seq.Seq. T&. T&) (proj%vstd!view.View./V Self%&. Self%&))
     )
     (sized T&.)
   ))
   :pattern ((tr_bound%vstd!array.ArrayAdditionalSpecFns. Self%&. Self%& T&. T&))
   :qid internal_vstd__array__ArrayAdditionalSpecFns_trait_type_bounds_definition
   :skolemid skolem_internal_vstd__array__ArrayAdditionalSpecFns_trait_type_bounds_definition
)))
(assert
 (forall ((Self%&. Dcr) (Self%& Type) (T&. Dcr) (T& Type)) (!
   (=>
    (tr_bound%vstd!slice.SliceAdditionalSpecFns. Self%&. Self%& T&. T&)
    (and
     (tr_bound%vstd!view.View. Self%&. Self%&)
     (and
      (= $ (proj%%vstd!view.View./V Self%&. Self%&))
      (= (TYPE%vstd!seq.Seq. T&. T&) (proj%vstd!view.View./V Self%&. Self%&))
     )
     (sized T&.)
   ))
   :pattern ((tr_bound%vstd!slice.SliceAdditionalSpecFns. Self%&. Self%& T&. T&))
   :qid internal_vstd__slice__SliceAdditionalSpecFns_trait_type_bounds_definition
   :skolemid skolem_internal_vstd__slice__SliceAdditionalSpecFns_trait_type_bounds_definition
)))
(assert
 (forall ((Self%&. Dcr) (Self%& Type) (T&. Dcr) (T& Type)) (!
   true
   :pattern ((tr_bound%core!slice.index.SliceIndex. Self%&. Self%& T&. T&))
   :qid internal_core__slice__index__SliceIndex_trait_type_bounds_definition
   :skolemid skolem_internal_core__slice__index__SliceIndex_trait_type_bounds_definition
)))
(assert
 (forall ((Self%&. Dcr) (Self%& Type) (T&. Dcr) (T& Type)) (!
   (=>
    (tr_bound%vstd!slice.SliceIndexSpec. Self%&. Self%& T&. T&)
    (tr_bound%core!slice.index.SliceIndex. Self%&. Self%& T&. T&)
   )
   :pattern ((tr_bound%vstd!slice.SliceIndexSpec. Self%&. Self%& T&. T&))
   :qid internal_vstd__slice__SliceIndexSpec_trait_type_bounds_definition
   :skolemid skolem_internal_vstd__slice__SliceIndexSpec_trait_type_bounds_definition
)))
(assert
 (forall ((Self%&. Dcr) (Self%& Type)) (!
   true
   :pattern ((tr_bound%vstd!string.StringSliceAdditionalSpecFns. Self%&. Self%&))
   :qid internal_vstd__string__StringSliceAdditionalSpecFns_trait_type_bounds_definition
   :skolemid skolem_internal_vstd__string__StringSliceAdditionalSpecFns_trait_type_bounds_definition
)))
(assert
 (forall ((Self%&. Dcr) (Self%& Type)) (!
   (=>
    (tr_bound%vstd!view.View. Self%&. Self%&)
    (sized (proj%%vstd!view.View./V Self%&. Self%&))
   )
   :pattern ((tr_bound%vstd!view.View. Self%&. Self%&))
   :qid internal_vstd__view__View_trait_type_bounds_definition
   :skolemid skolem_internal_vstd__view__View_trait_type_bounds_definition
)))
(assert
 (forall ((Self%&. Dcr) (Self%& Type)) (!
   (=>
    (tr_bound%core!clone.Clone. Self%&. Self%&)
    (sized Self%&.)
   )
   :pattern ((tr_bound%core!clone.Clone. Self%&. Self%&))
   :qid internal_core__clone__Clone_trait_type_bounds_definition
   :skolemid skolem_internal_core__clone__Clone_trait_type_bounds_definition
)))
(assert
 (forall ((Self%&. Dcr) (Self%& Type)) (!
   (=>
    (tr_bound%core!marker.Copy. Self%&. Self%&)
    (tr_bound%core!clone.Clone. Self%&. Self%&)
   )
   :pattern ((tr_bound%core!marker.Copy. Self%&. Self%&))
   :qid internal_core__marker__Copy_trait_type_bounds_definition
   :skolemid skolem_internal_core__marker__Copy_trait_type_bounds_definition
)))
(assert
 (forall ((Self%&. Dcr) (Self%& Type) (Rhs&. Dcr) (Rhs& Type)) (!
   true
   :pattern ((tr_bound%core!cmp.PartialEq. Self%&. Self%& Rhs&. Rhs&))
   :qid internal_core__cmp__PartialEq_trait_type_bounds_definition
   :skolemid skolem_internal_core__cmp__PartialEq_trait_type_bounds_definition
)))
(assert
 (forall ((Self%&. Dcr) (Self%& Type)) (!
   (=>
    (tr_bound%core!cmp.Eq. Self%&. Self%&)
    (tr_bound%core!cmp.PartialEq. Self%&. Self%& Self%&. Self%&)
   )
   :pattern ((tr_bound%core!cmp.Eq. Self%&. Self%&))
   :qid internal_core__cmp__Eq_trait_type_bounds_definition
   :skolemid skolem_internal_core__cmp__Eq_trait_type_bounds_definition
)))
(assert
 (forall ((Self%&. Dcr) (Self%& Type) (T&. Dcr) (T& Type)) (!
   (=>
    (tr_bound%core!convert.From. Self%&. Self%& T&. T&)
    (and
     (sized Self%&.)
     (sized T&.)
   ))
   :pattern ((tr_bound%core!convert.From. Self%&. Self%& T&. T&))
   :qid internal_core__convert__From_trait_type_bounds_definition
   :skolemid skolem_internal_core__convert__From_trait_type_bounds_definition
)))
(assert
 (forall ((Self%&. Dcr) (Self%& Type) (T&. Dcr) (T& Type)) (!
   (=>
    (tr_bound%vstd!std_specs.convert.FromSpec. Self%&. Self%& T&. T&)
    (and
     (sized Self%&.)
     (tr_bound%core!convert.From. Self%&. Self%& T&. T&)
     (sized T&.)
   ))
   :pattern ((tr_bound%vstd!std_specs.convert.FromSpec. Self%&. Self%& T&. T&))
   :qid internal_vstd__std_specs__convert__FromSpec_trait_type_bounds_definition
   :skolemid skolem_internal_vstd__std_specs__convert__FromSpec_trait_type_bounds_definition
)))
(assert
 (forall ((Self%&. Dcr) (Self%& Type)) (!
   true
   :pattern ((tr_bound%core!marker.Tuple. Self%&. Self%&))
   :qid internal_core__marker__Tuple_trait_type_bounds_definition
   :skolemid skolem_internal_core__marker__Tuple_trait_type_bounds_definition
)))
(assert
 (forall ((Self%&. Dcr) (Self%& Type) (Args&. Dcr) (Args& Type)) (!
   (=>
    (tr_bound%core!ops.function.FnOnce. Self%&. Self%& Args&. Args&)
    (and
     (sized Args&.)
     (tr_bound%core!marker.Tuple. Args&. Args&)
     (sized (proj%%core!ops.function.FnOnce./Output Self%&. Self%& Args&. Args&))
   ))
   :pattern ((tr_bound%core!ops.function.FnOnce. Self%&. Self%& Args&. Args&))
   :qid internal_core__ops__function__FnOnce_trait_type_bounds_definition
   :skolemid skolem_internal_core__ops__function__FnOnce_trait_type_bounds_definition
)))
(assert
 (forall ((Self%&. Dcr) (Self%& Type) (Args&. Dcr) (Args& Type)) (!
   (=>
    (tr_bound%core!ops.function.FnMut. Self%&. Self%& Args&. Args&)
    (and
     (tr_bound%core!ops.function.FnOnce. Self%&. Self%& Args&. Args&)
     (sized Args&.)
     (tr_bound%core!marker.Tuple. Args&. Args&)
   ))
   :pattern ((tr_bound%core!ops.function.FnMut. Self%&. Self%& Args&. Args&))
   :qid internal_core__ops__function__FnMut_trait_type_bounds_definition
   :skolemid skolem_internal_core__ops__function__FnMut_trait_type_bounds_definition
)))
(assert
 (forall ((Self%&. Dcr) (Self%& Type) (Args&. Dcr) (Args& Type)) (!
   (=>
    (tr_bound%core!ops.function.Fn. Self%&. Self%& Args&. Args&)
    (and
     (tr_bound%core!ops.function.FnMut. Self%&. Self%& Args&. Args&)
     (sized Args&.)
     (tr_bound%core!marker.Tuple. Args&. Args&)
   ))
   :pattern ((tr_bound%core!ops.function.Fn. Self%&. Self%& Args&. Args&))
   :qid internal_core__ops__function__Fn_trait_type_bounds_definition
   :skolemid skolem_internal_core__ops__function__Fn_trait_type_bounds_definition
)))
(assert
 (forall ((Self%&. Dcr) (Self%& Type) (Idx&. Dcr) (Idx& Type)) (!
   true
   :pattern ((tr_bound%core!ops.index.Index. Self%&. Self%& Idx&. Idx&))
   :qid internal_core__ops__index__Index_trait_type_bounds_definition
   :skolemid skolem_internal_core__ops__index__Index_trait_type_bounds_definition
)))
(assert
 (forall ((Self%&. Dcr) (Self%& Type)) (!
   (=>
    (tr_bound%verus_builtin!Integer. Self%&. Self%&)
    (tr_bound%core!marker.Copy. Self%&. Self%&)
   )
   :pattern ((tr_bound%verus_builtin!Integer. Self%&. Self%&))
   :qid internal_verus_builtin__Integer_trait_type_bounds_definition
   :skolemid skolem_internal_verus_builtin__Integer_trait_type_bounds_definition
)))
(assert
 (forall ((Self%&. Dcr) (Self%& Type)) (!
   true
   :pattern ((tr_bound%core!alloc.Allocator. Self%&. Self%&))
   :qid internal_core__alloc__Allocator_trait_type_bounds_definition
   :skolemid skolem_internal_core__alloc__Allocator_trait_type_bounds_definition
)))
(assert
 (forall ((Self%&. Dcr) (Self%& Type)) (!
   true
   :pattern ((tr_bound%core!hash.Hash. Self%&. Self%&))
   :qid internal_core__hash__Hash_trait_type_bounds_definition
   :skolemid skolem_internal_core__hash__Hash_trait_type_bounds_definition
)))
(assert
 (forall ((Self%&. Dcr) (Self%& Type) (Borrowed&. Dcr) (Borrowed& Type)) (!
   true
   :pattern ((tr_bound%core!borrow.Borrow. Self%&. Self%& Borrowed&. Borrowed&))
   :qid internal_core__borrow__Borrow_trait_type_bounds_definition
   :skolemid skolem_internal_core__borrow__Borrow_trait_type_bounds_definition
)))
(assert
 (forall ((Self%&. Dcr) (Self%& Type) (Idx&. Dcr) (Idx& Type)) (!
   (=>
    (tr_bound%vstd!std_specs.core.IndexSpec. Self%&. Self%& Idx&. Idx&)
    (tr_bound%core!ops.index.Index. Self%&. Self%& Idx&. Idx&)
   )
   :pattern ((tr_bound%vstd!std_specs.core.IndexSpec. Self%&. Self%& Idx&. Idx&))
   :qid internal_vstd__std_specs__core__IndexSpec_trait_type_bounds_definition
   :skolemid skolem_internal_vstd__std_specs__core__IndexSpec_trait_type_bounds_definition
)))
(assert
 (forall ((Self%&. Dcr) (Self%& Type)) (!
   true
   :pattern ((tr_bound%core!hash.Hasher. Self%&. Self%&))
   :qid internal_core__hash__Hasher_trait_type_bounds_definition
   :skolemid skolem_internal_core__hash__Hasher_trait_type_bounds_definition
)))
(assert
 (forall ((Self%&. Dcr) (Self%& Type)) (!
   (=>
    (tr_bound%core!hash.BuildHasher. Self%&. Self%&)
    (and
     (tr_bound%core!hash.Hasher. (proj%%core!hash.BuildHasher./Hasher Self%&. Self%&) (
       proj%core!hash.BuildHasher./Hasher Self%&. Self%&
     ))
     (sized (proj%%core!hash.BuildHasher./Hasher Self%&. Self%&))
   ))
   :pattern ((tr_bound%core!hash.BuildHasher. Self%&. Self%&))
   :qid internal_core__hash__BuildHasher_trait_type_bounds_definition
   :skolemid skolem_internal_core__hash__BuildHasher_trait_type_bounds_definition
)))
(assert
 (forall ((Self%&. Dcr) (Self%& Type) (T&. Dcr) (T& Type)) (!
   true
   :pattern ((tr_bound%core!ops.range.RangeBounds. Self%&. Self%& T&. T&))
   :qid internal_core__ops__range__RangeBounds_trait_type_bounds_definition
   :skolemid skolem_internal_core__ops__range__RangeBounds_trait_type_bounds_definition
)))
(assert
 (forall ((Self%&. Dcr) (Self%& Type) (T&. Dcr) (T& Type)) (!
   (=>
    (tr_bound%vstd!std_specs.range.RangeBoundsSpec. Self%&. Self%& T&. T&)
    (tr_bound%core!ops.range.RangeBounds. Self%&. Self%& T&. T&)
   )
   :pattern ((tr_bound%vstd!std_specs.range.RangeBoundsSpec. Self%&. Self%& T&. T&))
   :qid internal_vstd__std_specs__range__RangeBoundsSpec_trait_type_bounds_definition
   :skolemid skolem_internal_vstd__std_specs__range__RangeBoundsSpec_trait_type_bounds_definition
)))
(assert
 (forall ((Self%&. Dcr) (Self%& Type)) (!
   (=>
    (tr_bound%core!num.nonzero.ZeroablePrimitive. Self%&. Self%&)
    (and
     (sized Self%&.)
     (tr_bound%core!marker.Copy. Self%&. Self%&)
   ))
   :pattern ((tr_bound%core!num.nonzero.ZeroablePrimitive. Self%&. Self%&))
   :qid internal_core__num__nonzero__ZeroablePrimitive_trait_type_bounds_definition
   :skolemid skolem_internal_core__num__nonzero__ZeroablePrimitive_trait_type_bounds_definition
)))
(assert
 (forall ((Self%&. Dcr) (Self%& Type)) (!
   (=>
    (tr_bound%vstd!std_specs.nonzero.ZeroablePrimitiveSpec. Self%&. Self%&)
    (and
     (sized Self%&.)
     (tr_bound%core!marker.Copy. Self%&. Self%&)
     (tr_bound%core!num.nonzero.ZeroablePrimitive. Self%&. Self%&)
   ))
   :pattern ((tr_bound%vstd!std_specs.nonzero.ZeroablePrimitiveSpec. Self%&. Self%&))
   :qid internal_vstd__std_specs__nonzero__ZeroablePrimitiveSpec_trait_type_bounds_definition
   :skolemid skolem_internal_vstd__std_specs__nonzero__ZeroablePrimitiveSpec_trait_type_bounds_definition
)))

;; Associated-Type-Impls
(assert
 (forall ((T&. Dcr) (T& Type) (N&. Dcr) (N& Type)) (!
   (=>
    (and
     (sized T&.)
     (uInv SZ (const_int N&))
    )
    (= (proj%%vstd!view.View./V $ (ARRAY T&. T& N&. N&)) $)
   )
   :pattern ((proj%%vstd!view.View./V $ (ARRAY T&. T& N&. N&)))
   :qid internal_proj____vstd!view.View./V_vstd__array__impl&__0_assoc_type_impl_true_definition
   :skolemid skolem_internal_proj____vstd!view.View./V_vstd__array__impl&__0_assoc_type_impl_true_definition
)))
(assert
 (forall ((T&. Dcr) (T& Type) (N&. Dcr) (N& Type)) (!
   (=>
    (and
     (sized T&.)
     (uInv SZ (const_int N&))
    )
    (= (proj%vstd!view.View./V $ (ARRAY T&. T& N&. N&)) (TYPE%vstd!seq.Seq. T&. T&))
   )
   :pattern ((proj%vstd!view.View./V $ (ARRAY T&. T& N&. N&)))
   :qid internal_proj__vstd!view.View./V_vstd__array__impl&__0_assoc_type_impl_false_definition
   :skolemid skolem_internal_proj__vstd!view.View./V_vstd__array__impl&__0_assoc_type_impl_false_definition
)))
(assert
 (forall ((T&. Dcr) (T& Type)) (!
   (= (proj%%vstd!view.View./V $ (PTR T&. T&)) $)
   :pattern ((proj%%vstd!view.View./V $ (PTR T&. T&)))
   :qid internal_proj____vstd!view.View./V_vstd__raw_ptr__impl&__2_assoc_type_impl_true_definition
   :skolemid skolem_internal_proj____vstd!view.View./V_vstd__raw_ptr__impl&__2_assoc_type_impl_true_definition
)))
(assert
 (forall ((T&. Dcr) (T& Type)) (!
   (= (proj%vstd!view.View./V $ (PTR T&. T&)) (TYPE%vstd!raw_ptr.PtrData. T&. T&))
   :pattern ((proj%vstd!view.View./V $ (PTR T&. T&)))
   :qid internal_proj__vstd!view.View./V_vstd__raw_ptr__impl&__2_assoc_type_impl_false_definition
   :skolemid skolem_internal_proj__vstd!view.View./V_vstd__raw_ptr__impl&__2_assoc_type_impl_false_definition
)))
(assert
 (forall ((T&. Dcr) (T& Type)) (!
   (= (proj%%vstd!view.View./V (CONST_PTR $) (PTR T&. T&)) $)
   :pattern ((proj%%vstd!view.View./V (CONST_PTR $) (PTR T&. T&)))
   :qid internal_proj____vstd!view.View./V_vstd__raw_ptr__impl&__3_assoc_type_impl_true_definition
   :skolemid skolem_internal_proj____vstd!view.View./V_vstd__raw_ptr__impl&__3_assoc_type_impl_true_definition
)))
(assert
 (forall ((T&. Dcr) (T& Type)) (!
   (= (proj%vstd!view.View./V (CONST_PTR $) (PTR T&. T&)) (TYPE%vstd!raw_ptr.PtrData.
     T&. T&
   ))
   :pattern ((proj%vstd!view.View./V (CONST_PTR $) (PTR T&. T&)))
   :qid internal_proj__vstd!view.View./V_vstd__raw_ptr__impl&__3_assoc_type_impl_false_definition
   :skolemid skolem_internal_proj__vstd!view.View./V_vstd__raw_ptr__impl&__3_assoc_type_impl_false_definition
)))
(assert
 (forall ((T&. Dcr) (T& Type)) (!
   (=>
    (sized T&.)
    (= (proj%%vstd!view.View./V $slice (SLICE T&. T&)) $)
   )
   :pattern ((proj%%vstd!view.View./V $slice (SLICE T&. T&)))
   :qid internal_proj____vstd!view.View./V_vstd__slice__impl&__0_assoc_type_impl_true_definition
   :skolemid skolem_internal_proj____vstd!view.View./V_vstd__slice__impl&__0_assoc_type_impl_true_definition
)))
(assert
 (forall ((T&. Dcr) (T& Type)) (!
   (=>
    (sized T&.)
    (= (proj%vstd!view.View./V $slice (SLICE T&. T&)) (TYPE%vstd!seq.Seq. T&. T&))
   )
   :pattern ((proj%vstd!view.View./V $slice (SLICE T&. T&)))
   :qid internal_proj__vstd!view.View./V_vstd__slice__impl&__0_assoc_type_impl_false_definition
   :skolemid skolem_internal_proj__vstd!view.View./V_vstd__slice__impl&__0_assoc_type_impl_false_definition
)))
(assert
 (= (proj%%vstd!view.View./V $slice STRSLICE) $)
)
(assert
 (= (proj%vstd!view.View./V $slice STRSLICE) (TYPE%vstd!seq.Seq. $ CHAR))
)
(assert
 (= (proj%%vstd!view.View./V $ TYPE%alloc!string.String.) $)
)
(assert
 (= (proj%vstd!view.View./V $ TYPE%alloc!string.String.) (TYPE%vstd!seq.Seq. $ CHAR))
)
(assert
 (forall ((A&. Dcr) (A& Type)) (!
   (=>
    (tr_bound%vstd!view.View. A&. A&)
    (= (proj%%vstd!view.View./V (REF A&.) A&) (proj%%vstd!view.View./V A&. A&))
   )
   :pattern ((proj%%vstd!view.View./V (REF A&.) A&))
   :qid internal_proj____vstd!view.View./V_vstd__view__impl&__0_assoc_type_impl_true_definition
   :skolemid skolem_internal_proj____vstd!view.View./V_vstd__view__impl&__0_assoc_type_impl_true_definition
)))
(assert
 (forall ((A&. Dcr) (A& Type)) (!
   (=>
    (tr_bound%vstd!view.View. A&. A&)
    (= (proj%vstd!view.View./V (REF A&.) A&) (proj%vstd!view.View./V A&. A&))
   )
   :pattern ((proj%vstd!view.View./V (REF A&.) A&))
   :qid internal_proj__vstd!view.View./V_vstd__view__impl&__0_assoc_type_impl_false_definition
   :skolemid skolem_internal_proj__vstd!view.View./V_vstd__view__impl&__0_assoc_type_impl_false_definition
)))
(assert
 (forall ((A&. Dcr) (A& Type)) (!
   (=>
    (tr_bound%vstd!view.View. A&. A&)
    (= (proj%%vstd!view.View./V (BOX $ TYPE%alloc!alloc.Global. A&.) A&) (proj%%vstd!view.View./V
      A&. A&
   )))
   :pattern ((proj%%vstd!view.View./V (BOX $ TYPE%alloc!alloc.Global. A&.) A&))
   :qid internal_proj____vstd!view.View./V_vstd__view__impl&__2_assoc_type_impl_true_definition
   :skolemid skolem_internal_proj____vstd!view.View./V_vstd__view__impl&__2_assoc_type_impl_true_definition
)))
(assert
 (forall ((A&. Dcr) (A& Type)) (!
   (=>
    (tr_bound%vstd!view.View. A&. A&)
    (= (proj%vstd!view.View./V (BOX $ TYPE%alloc!alloc.Global. A&.) A&) (proj%vstd!view.View./V
      A&. A&
   )))
   :pattern ((proj%vstd!view.View./V (BOX $ TYPE%alloc!alloc.Global. A&.) A&))
   :qid internal_proj__vstd!view.View./V_vstd__view__impl&__2_assoc_type_impl_false_definition
   :skolemid skolem_internal_proj__vstd!view.View./V_vstd__view__impl&__2_assoc_type_impl_false_definition
)))
(assert
 (forall ((A&. Dcr) (A& Type)) (!
   (=>
    (and
     (sized A&.)
     (tr_bound%vstd!view.View. A&. A&)
    )
    (= (proj%%vstd!view.View./V (RC $ TYPE%alloc!alloc.Global. A&.) A&) (proj%%vstd!view.View./V
      A&. A&
   )))
   :pattern ((proj%%vstd!view.View./V (RC $ TYPE%alloc!alloc.Global. A&.) A&))
   :qid internal_proj____vstd!view.View./V_vstd__view__impl&__4_assoc_type_impl_true_definition
   :skolemid skolem_internal_proj____vstd!view.View./V_vstd__view__impl&__4_assoc_type_impl_true_definition
)))
(assert
 (forall ((A&. Dcr) (A& Type)) (!
   (=>
    (and
     (sized A&.)
     (tr_bound%vstd!view.View. A&. A&)
    )
    (= (proj%vstd!view.View./V (RC $ TYPE%alloc!alloc.Global. A&.) A&) (proj%vstd!view.View./V
      A&. A&
   )))
   :pattern ((proj%vstd!view.View./V (RC $ TYPE%alloc!alloc.Global. A&.) A&))
   :qid internal_proj__vstd!view.View./V_vstd__view__impl&__4_assoc_type_impl_false_definition
   :skolemid skolem_internal_proj__vstd!view.View./V_vstd__view__impl&__4_assoc_type_impl_false_definition
)))
(assert
 (forall ((A&. Dcr) (A& Type)) (!
   (=>
    (and
     (sized A&.)
     (tr_bound%vstd!view.View. A&. A&)
    )
    (= (proj%%vstd!view.View./V (ARC $ TYPE%alloc!alloc.Global. A&.) A&) (proj%%vstd!view.View./V
      A&. A&
   )))
   :pattern ((proj%%vstd!view.View./V (ARC $ TYPE%alloc!alloc.Global. A&.) A&))
   :qid internal_proj____vstd!view.View./V_vstd__view__impl&__6_assoc_type_impl_true_definition
   :skolemid skolem_internal_proj____vstd!view.View./V_vstd__view__impl&__6_assoc_type_impl_true_definition
)))
(assert
 (forall ((A&. Dcr) (A& Type)) (!
   (=>
    (and
     (sized A&.)
     (tr_bound%vstd!view.View. A&. A&)
    )
    (= (proj%vstd!view.View./V (ARC $ TYPE%alloc!alloc.Global. A&.) A&) (proj%vstd!view.View./V
      A&. A&
   )))
   :pattern ((proj%vstd!view.View./V (ARC $ TYPE%alloc!alloc.Global. A&.) A&))
   :qid internal_proj__vstd!view.View./V_vstd__view__impl&__6_assoc_type_impl_false_definition
   :skolemid skolem_internal_proj__vstd!view.View./V_vstd__view__impl&__6_assoc_type_impl_false_definition
)))
(assert
 (forall ((Key&. Dcr) (Key& Type) (Value&. Dcr) (Value& Type) (S&. Dcr) (S& Type) (A&.
    Dcr
   ) (A& Type)
  ) (!
   (=>
    (and
     (sized Key&.)
     (sized Value&.)
     (sized S&.)
     (sized A&.)
     (tr_bound%core!alloc.Allocator. A&. A&)
    )
    (= (proj%%vstd!view.View./V $ (TYPE%std!collections.hash.map.HashMap. Key&. Key& Value&.
       Value& S&. S& A&. A&
      )
     ) $
   ))
   :pattern ((proj%%vstd!view.View./V $ (TYPE%std!collections.hash.map.HashMap. Key&. Key&
      Value&. Value& S&. S& A&. A&
   )))
   :qid internal_proj____vstd!view.View./V_vstd__view__impl&__10_assoc_type_impl_true_definition
   :skolemid skolem_internal_proj____vstd!view.View./V_vstd__view__impl&__10_assoc_type_impl_true_definition
)))
(assert
 (forall ((Key&. Dcr) (Key& Type) (Value&. Dcr) (Value& Type) (S&. Dcr) (S& Type) (A&.
    Dcr
   ) (A& Type)
  ) (!
   (=>
    (and
     (sized Key&.)
     (sized Value&.)
     (sized S&.)
     (sized A&.)
     (tr_bound%core!alloc.Allocator. A&. A&)
    )
    (= (proj%vstd!view.View./V $ (TYPE%std!collections.hash.map.HashMap. Key&. Key& Value&.
       Value& S&. S& A&. A&
      )
     ) (TYPE%vstd!map.Map. Key&. Key& Value&. Value&)
   ))
   :pattern ((proj%vstd!view.View./V $ (TYPE%std!collections.hash.map.HashMap. Key&. Key&
      Value&. Value& S&. S& A&. A&
   )))
   :qid internal_proj__vstd!view.View./V_vstd__view__impl&__10_assoc_type_impl_false_definition
   :skolemid skolem_internal_proj__vstd!view.View./V_vstd__view__impl&__10_assoc_type_impl_false_definition
)))
(assert
 (= (proj%%vstd!view.View./V $ TYPE%tuple%0.) $)
)
(assert
 (= (proj%vstd!view.View./V $ TYPE%tuple%0.) TYPE%tuple%0.)
)
(assert
 (= (proj%%vstd!view.View./V $ BOOL) $)
)
(assert
 (= (proj%vstd!view.View./V $ BOOL) BOOL)
)
(assert
 (= (proj%%vstd!view.View./V $ (UINT 8)) $)
)
(assert
 (= (proj%vstd!view.View./V $ (UINT 8)) (UINT 8))
)
(assert
 (= (proj%%vstd!view.View./V $ (UINT 16)) $)
)
(assert
 (= (proj%vstd!view.View./V $ (UINT 16)) (UINT 16))
)
(assert
 (= (proj%%vstd!view.View./V $ (UINT 32)) $)
)
(assert
 (= (proj%vstd!view.View./V $ (UINT 32)) (UINT 32))
)
(assert
 (= (proj%%vstd!view.View./V $ (UINT 64)) $)
)
(assert
 (= (proj%vstd!view.View./V $ (UINT 64)) (UINT 64))
)
(assert
 (= (proj%%vstd!view.View./V $ (UINT 128)) $)
)
(assert
 (= (proj%vstd!view.View./V $ (UINT 128)) (UINT 128))
)
(assert
 (= (proj%%vstd!view.View./V $ USIZE) $)
)
(assert
 (= (proj%vstd!view.View./V $ USIZE) USIZE)
)
(assert
 (= (proj%%vstd!view.View./V $ (SINT 8)) $)
)
(assert
 (= (proj%vstd!view.View./V $ (SINT 8)) (SINT 8))
)
(assert
 (= (proj%%vstd!view.View./V $ (SINT 16)) $)
)
(assert
 (= (proj%vstd!view.View./V $ (SINT 16)) (SINT 16))
)
(assert
 (= (proj%%vstd!view.View./V $ (SINT 32)) $)
)
(assert
 (= (proj%vstd!view.View./V $ (SINT 32)) (SINT 32))
)
(assert
 (= (proj%%vstd!view.View./V $ (SINT 64)) $)
)
(assert
 (= (proj%vstd!view.View./V $ (SINT 64)) (SINT 64))
)
(assert
 (= (proj%%vstd!view.View./V $ (SINT 128)) $)
)
(assert
 (= (proj%vstd!view.View./V $ (SINT 128)) (SINT 128))
)
(assert
 (= (proj%%vstd!view.View./V $ ISIZE) $)
)
(assert
 (= (proj%vstd!view.View./V $ ISIZE) ISIZE)
)
(assert
 (= (proj%%vstd!view.View./V $ CHAR) $)
)
(assert
 (= (proj%vstd!view.View./V $ CHAR) CHAR)
)
(assert
 (forall ((A0&. Dcr) (A0& Type) (A1&. Dcr) (A1& Type)) (!
   (=>
    (and
     (sized A0&.)
     (sized A1&.)
     (tr_bound%vstd!view.View. A0&. A0&)
     (tr_bound%vstd!view.View. A1&. A1&)
    )
    (= (proj%%vstd!view.View./V (DST A1&.) (TYPE%tuple%2. A0&. A0& A1&. A1&)) (DST (proj%%vstd!view.View./V
       A1&. A1&
   ))))
   :pattern ((proj%%vstd!view.View./V (DST A1&.) (TYPE%tuple%2. A0&. A0& A1&. A1&)))
   :qid internal_proj____vstd!view.View./V_vstd__view__impl&__48_assoc_type_impl_true_definition
   :skolemid skolem_internal_proj____vstd!view.View./V_vstd__view__impl&__48_assoc_type_impl_true_definition
)))
(assert
 (forall ((A0&. Dcr) (A0& Type) (A1&. Dcr) (A1& Type)) (!
   (=>
    (and
     (sized A0&.)
     (sized A1&.)
     (tr_bound%vstd!view.View. A0&. A0&)
     (tr_bound%vstd!view.View. A1&. A1&)
    )
    (= (proj%vstd!view.View./V (DST A1&.) (TYPE%tuple%2. A0&. A0& A1&. A1&)) (TYPE%tuple%2.
      (proj%%vstd!view.View./V A0&. A0&) (proj%vstd!view.View./V A0&. A0&) (proj%%vstd!view.View./V
       A1&. A1&
      ) (proj%vstd!view.View./V A1&. A1&)
   )))
   :pattern ((proj%vstd!view.View./V (DST A1&.) (TYPE%tuple%2. A0&. A0& A1&. A1&)))
   :qid internal_proj__vstd!view.View./V_vstd__view__impl&__48_assoc_type_impl_false_definition
   :skolemid skolem_internal_proj__vstd!view.View./V_vstd__view__impl&__48_assoc_type_impl_false_definition
)))
(assert
 (= (proj%%vstd!view.View./V $ TYPE%std!hash.random.DefaultHasher.) $)
)
(assert
 (= (proj%vstd!view.View./V $ TYPE%std!hash.random.DefaultHasher.) (TYPE%vstd!seq.Seq.
   $ (TYPE%vstd!seq.Seq. $ (UINT 8))
)))
(assert
 (forall ((T&. Dcr) (T& Type)) (!
   (=>
    (and
     (sized T&.)
     (tr_bound%core!num.nonzero.ZeroablePrimitive. T&. T&)
    )
    (= (proj%%vstd!view.View./V $ (TYPE%core!num.nonzero.NonZero. T&. T&)) T&.)
   )
   :pattern ((proj%%vstd!view.View./V $ (TYPE%core!num.nonzero.NonZero. T&. T&)))
   :qid internal_proj____vstd!view.View./V_vstd__std_specs__nonzero__impl&__11_assoc_type_impl_true_definition
   :skolemid skolem_internal_proj____vstd!view.View./V_vstd__std_specs__nonzero__impl&__11_assoc_type_impl_true_definition
)))
(assert
 (forall ((T&. Dcr) (T& Type)) (!
   (=>
    (and
     (sized T&.)
     (tr_bound%core!num.nonzero.ZeroablePrimitive. T&. T&)
    )
    (= (proj%vstd!view.View./V $ (TYPE%core!num.nonzero.NonZero. T&. T&)) T&)
   )
   :pattern ((proj%vstd!view.View./V $ (TYPE%core!num.nonzero.NonZero. T&. T&)))
   :qid internal_proj__vstd!view.View./V_vstd__std_specs__nonzero__impl&__11_assoc_type_impl_false_definition
   :skolemid skolem_internal_proj__vstd!view.View./V_vstd__std_specs__nonzero__impl&__11_assoc_type_impl_false_definition
)))
(assert
 (forall ((A&. Dcr) (A& Type) (F&. Dcr) (F& Type)) (!
   (=>
    (and
     (sized A&.)
     (tr_bound%core!marker.Tuple. A&. A&)
     (tr_bound%core!ops.function.Fn. F&. F& A&. A&)
    )
    (= (proj%%core!ops.function.FnOnce./Output (REF F&.) F& A&. A&) (proj%%core!ops.function.FnOnce./Output
      F&. F& A&. A&
   )))
   :pattern ((proj%%core!ops.function.FnOnce./Output (REF F&.) F& A&. A&))
   :qid internal_proj____core!ops.function.FnOnce./Output_core__ops__function__impls__impl&__2_assoc_type_impl_true_definition
   :skolemid skolem_internal_proj____core!ops.function.FnOnce./Output_core__ops__function__impls__impl&__2_assoc_type_impl_true_definition
)))
(assert
 (forall ((A&. Dcr) (A& Type) (F&. Dcr) (F& Type)) (!
   (=>
    (and
     (sized A&.)
     (tr_bound%core!marker.Tuple. A&. A&)
     (tr_bound%core!ops.function.Fn. F&. F& A&. A&)
    )
    (= (proj%core!ops.function.FnOnce./Output (REF F&.) F& A&. A&) (proj%core!ops.function.FnOnce./Output
      F&. F& A&. A&
   )))
   :pattern ((proj%core!ops.function.FnOnce./Output (REF F&.) F& A&. A&))
   :qid internal_proj__core!ops.function.FnOnce./Output_core__ops__function__impls__impl&__2_assoc_type_impl_false_definition
   :skolemid skolem_internal_proj__core!ops.function.FnOnce./Output_core__ops__function__impls__impl&__2_assoc_type_impl_false_definition
)))
(assert
 (forall ((A&. Dcr) (A& Type) (F&. Dcr) (F& Type)) (!
   (=>
    (and
     (sized A&.)
     (tr_bound%core!marker.Tuple. A&. A&)
     (tr_bound%core!ops.function.FnMut. F&. F& A&. A&)
    )
    (= (proj%%core!ops.function.FnOnce./Output $ (MUTREF F&. F&) A&. A&) (proj%%core!ops.function.FnOnce./Output
      F&. F& A&. A&
   )))
   :pattern ((proj%%core!ops.function.FnOnce./Output $ (MUTREF F&. F&) A&. A&))
   :qid internal_proj____core!ops.function.FnOnce./Output_core__ops__function__impls__impl&__4_assoc_type_impl_true_definition
   :skolemid skolem_internal_proj____core!ops.function.FnOnce./Output_core__ops__function__impls__impl&__4_assoc_type_impl_true_definition
)))
(assert
 (forall ((A&. Dcr) (A& Type) (F&. Dcr) (F& Type)) (!
   (=>
    (and
     (sized A&.)
     (tr_bound%core!marker.Tuple. A&. A&)
     (tr_bound%core!ops.function.FnMut. F&. F& A&. A&)
    )
    (= (proj%core!ops.function.FnOnce./Output $ (MUTREF F&. F&) A&. A&) (proj%core!ops.function.FnOnce./Output
      F&. F& A&. A&
   )))
   :pattern ((proj%core!ops.function.FnOnce./Output $ (MUTREF F&. F&) A&. A&))
   :qid internal_proj__core!ops.function.FnOnce./Output_core__ops__function__impls__impl&__4_assoc_type_impl_false_definition
   :skolemid skolem_internal_proj__core!ops.function.FnOnce./Output_core__ops__function__impls__impl&__4_assoc_type_impl_false_definition
)))
(assert
 (forall ((Args&. Dcr) (Args& Type) (F&. Dcr) (F& Type) (A&. Dcr) (A& Type)) (!
   (=>
    (and
     (sized Args&.)
     (sized A&.)
     (tr_bound%core!marker.Tuple. Args&. Args&)
     (tr_bound%core!ops.function.FnOnce. F&. F& Args&. Args&)
     (tr_bound%core!alloc.Allocator. A&. A&)
    )
    (= (proj%%core!ops.function.FnOnce./Output (BOX A&. A& F&.) F& Args&. Args&) (proj%%core!ops.function.FnOnce./Output
      F&. F& Args&. Args&
   )))
   :pattern ((proj%%core!ops.function.FnOnce./Output (BOX A&. A& F&.) F& Args&. Args&))
   :qid internal_proj____core!ops.function.FnOnce./Output_alloc__boxed__impl&__31_assoc_type_impl_true_definition
   :skolemid skolem_internal_proj____core!ops.function.FnOnce./Output_alloc__boxed__impl&__31_assoc_type_impl_true_definition
)))
(assert
 (forall ((Args&. Dcr) (Args& Type) (F&. Dcr) (F& Type) (A&. Dcr) (A& Type)) (!
   (=>
    (and
     (sized Args&.)
     (sized A&.)
     (tr_bound%core!marker.Tuple. Args&. Args&)
     (tr_bound%core!ops.function.FnOnce. F&. F& Args&. Args&)
     (tr_bound%core!alloc.Allocator. A&. A&)
    )
    (= (proj%core!ops.function.FnOnce./Output (BOX A&. A& F&.) F& Args&. Args&) (proj%core!ops.function.FnOnce./Output
      F&. F& Args&. Args&
   )))
   :pattern ((proj%core!ops.function.FnOnce./Output (BOX A&. A& F&.) F& Args&. Args&))
   :qid internal_proj__core!ops.function.FnOnce./Output_alloc__boxed__impl&__31_assoc_type_impl_false_definition
   :skolemid skolem_internal_proj__core!ops.function.FnOnce./Output_alloc__boxed__impl&__31_assoc_type_impl_false_definition
)))
(assert
 (forall ((K&. Dcr) (K& Type) (Q&. Dcr) (Q& Type) (V&. Dcr) (V& Type) (S&. Dcr) (S& Type)
   (A&. Dcr) (A& Type)
  ) (!
   (=>
    (and
     (sized K&.)
     (sized V&.)
     (sized S&.)
     (sized A&.)
     (tr_bound%core!cmp.Eq. K&. K&)
     (tr_bound%core!hash.Hash. K&. K&)
     (tr_bound%core!borrow.Borrow. K&. K& Q&. Q&)
     (tr_bound%core!cmp.Eq. Q&. Q&)
     (tr_bound%core!hash.Hash. Q&. Q&)
     (tr_bound%core!hash.BuildHasher. S&. S&)
     (tr_bound%core!alloc.Allocator. A&. A&)
    )
    (= (proj%%core!ops.index.Index./Output $ (TYPE%std!collections.hash.map.HashMap. K&.
       K& V&. V& S&. S& A&. A&
      ) (REF Q&.) Q&
     ) V&.
   ))
   :pattern ((proj%%core!ops.index.Index./Output $ (TYPE%std!collections.hash.map.HashMap.
      K&. K& V&. V& S&. S& A&. A&
     ) (REF Q&.) Q&
   ))
   :qid internal_proj____core!ops.index.Index./Output_std__collections__hash__map__impl&__10_assoc_type_impl_true_definition
   :skolemid skolem_internal_proj____core!ops.index.Index./Output_std__collections__hash__map__impl&__10_assoc_type_impl_true_definition
)))
(assert
 (forall ((K&. Dcr) (K& Type) (Q&. Dcr) (Q& Type) (V&. Dcr) (V& Type) (S&. Dcr) (S& Type)
   (A&. Dcr) (A& Type)
  ) (!
   (=>
    (and
     (sized K&.)
     (sized V&.)
     (sized S&.)
     (sized A&.)
     (tr_bound%core!cmp.Eq. K&. K&)
     (tr_bound%core!hash.Hash. K&. K&)
     (tr_bound%core!borrow.Borrow. K&. K& Q&. Q&)
     (tr_bound%core!cmp.Eq. Q&. Q&)
     (tr_bound%core!hash.Hash. Q&. Q&)
     (tr_bound%core!hash.BuildHasher. S&. S&)
     (tr_bound%core!alloc.Allocator. A&. A&)
    )
    (= (proj%core!ops.index.Index./Output $ (TYPE%std!collections.hash.map.HashMap. K&.
       K& V&. V& S&. S& A&. A&
      ) (REF Q&.) Q&
     ) V&
   ))
   :pattern ((proj%core!ops.index.Index./Output $ (TYPE%std!collections.hash.map.HashMap.
      K&. K& V&. V& S&. S& A&. A&
     ) (REF Q&.) Q&
   ))
   :qid internal_proj__core!ops.index.Index./Output_std__collections__hash__map__impl&__10_assoc_type_impl_false_definition
   :skolemid skolem_internal_proj__core!ops.index.Index./Output_std__collections__hash__map__impl&__10_assoc_type_impl_false_definition
)))
(assert
 (forall ((T&. Dcr) (T& Type) (I&. Dcr) (I& Type) (N&. Dcr) (N& Type)) (!
   (=>
    (and
     (sized T&.)
     (sized I&.)
     (uInv SZ (const_int N&))
     (tr_bound%core!ops.index.Index. $slice (SLICE T&. T&) I&. I&)
    )
    (= (proj%%core!ops.index.Index./Output $ (ARRAY T&. T& N&. N&) I&. I&) (proj%%core!ops.index.Index./Output
      $slice (SLICE T&. T&) I&. I&
   )))
   :pattern ((proj%%core!ops.index.Index./Output $ (ARRAY T&. T& N&. N&) I&. I&))
   :qid internal_proj____core!ops.index.Index./Output_core__array__impl&__15_assoc_type_impl_true_definition
   :skolemid skolem_internal_proj____core!ops.index.Index./Output_core__array__impl&__15_assoc_type_impl_true_definition
)))
(assert
 (forall ((T&. Dcr) (T& Type) (I&. Dcr) (I& Type) (N&. Dcr) (N& Type)) (!
   (=>
    (and
     (sized T&.)
     (sized I&.)
     (uInv SZ (const_int N&))
     (tr_bound%core!ops.index.Index. $slice (SLICE T&. T&) I&. I&)
    )
    (= (proj%core!ops.index.Index./Output $ (ARRAY T&. T& N&. N&) I&. I&) (proj%core!ops.index.Index./Output
      $slice (SLICE T&. T&) I&. I&
   )))
   :pattern ((proj%core!ops.index.Index./Output $ (ARRAY T&. T& N&. N&) I&. I&))
   :qid internal_proj__core!ops.index.Index./Output_core__array__impl&__15_assoc_type_impl_false_definition
   :skolemid skolem_internal_proj__core!ops.index.Index./Output_core__array__impl&__15_assoc_type_impl_false_definition
)))
(assert
 (forall ((T&. Dcr) (T& Type) (I&. Dcr) (I& Type)) (!
   (=>
    (and
     (sized T&.)
     (sized I&.)
     (tr_bound%core!slice.index.SliceIndex. I&. I& $slice (SLICE T&. T&))
    )
    (= (proj%%core!ops.index.Index./Output $slice (SLICE T&. T&) I&. I&) (proj%%core!slice.index.SliceIndex./Output
      I&. I& $slice (SLICE T&. T&)
   )))
   :pattern ((proj%%core!ops.index.Index./Output $slice (SLICE T&. T&) I&. I&))
   :qid internal_proj____core!ops.index.Index./Output_core__slice__index__impl&__0_assoc_type_impl_true_definition
   :skolemid skolem_internal_proj____core!ops.index.Index./Output_core__slice__index__impl&__0_assoc_type_impl_true_definition
)))
(assert
 (forall ((T&. Dcr) (T& Type) (I&. Dcr) (I& Type)) (!
   (=>
    (and
     (sized T&.)
     (sized I&.)
     (tr_bound%core!slice.index.SliceIndex. I&. I& $slice (SLICE T&. T&))
    )
    (= (proj%core!ops.index.Index./Output $slice (SLICE T&. T&) I&. I&) (proj%core!slice.index.SliceIndex./Output
      I&. I& $slice (SLICE T&. T&)
   )))
   :pattern ((proj%core!ops.index.Index./Output $slice (SLICE T&. T&) I&. I&))
   :qid internal_proj__core!ops.index.Index./Output_core__slice__index__impl&__0_assoc_type_impl_false_definition
   :skolemid skolem_internal_proj__core!ops.index.Index./Output_core__slice__index__impl&__0_assoc_type_impl_false_definition
)))
(assert
 (forall ((I&. Dcr) (I& Type)) (!
   (=>
    (and
     (sized I&.)
     (tr_bound%core!slice.index.SliceIndex. I&. I& $slice STRSLICE)
    )
    (= (proj%%core!ops.index.Index./Output $slice STRSLICE I&. I&) (proj%%core!slice.index.SliceIndex./Output
      I&. I& $slice STRSLICE
   )))
   :pattern ((proj%%core!ops.index.Index./Output $slice STRSLICE I&. I&))
   :qid internal_proj____core!ops.index.Index./Output_core__str__traits__impl&__4_assoc_type_impl_true_definition
   :skolemid skolem_internal_proj____core!ops.index.Index./Output_core__str__traits__impl&__4_assoc_type_impl_true_definition
)))
(assert
 (forall ((I&. Dcr) (I& Type)) (!
   (=>
    (and
     (sized I&.)
     (tr_bound%core!slice.index.SliceIndex. I&. I& $slice STRSLICE)
    )
    (= (proj%core!ops.index.Index./Output $slice STRSLICE I&. I&) (proj%core!slice.index.SliceIndex./Output
      I&. I& $slice STRSLICE
   )))
   :pattern ((proj%core!ops.index.Index./Output $slice STRSLICE I&. I&))
   :qid internal_proj__core!ops.index.Index./Output_core__str__traits__impl&__4_assoc_type_impl_false_definition
   :skolemid skolem_internal_proj__core!ops.index.Index./Output_core__str__traits__impl&__4_assoc_type_impl_false_definition
)))
(assert
 (forall ((I&. Dcr) (I& Type)) (!
   (=>
    (and
     (sized I&.)
     (tr_bound%core!slice.index.SliceIndex. I&. I& $slice STRSLICE)
    )
    (= (proj%%core!ops.index.Index./Output $ TYPE%alloc!string.String. I&. I&) (proj%%core!slice.index.SliceIndex./Output
      I&. I& $slice STRSLICE
   )))
   :pattern ((proj%%core!ops.index.Index./Output $ TYPE%alloc!string.String. I&. I&))
   :qid internal_proj____core!ops.index.Index./Output_alloc__string__impl&__33_assoc_type_impl_true_definition
   :skolemid skolem_internal_proj____core!ops.index.Index./Output_alloc__string__impl&__33_assoc_type_impl_true_definition
)))
(assert
 (forall ((I&. Dcr) (I& Type)) (!
   (=>
    (and
     (sized I&.)
     (tr_bound%core!slice.index.SliceIndex. I&. I& $slice STRSLICE)
    )
    (= (proj%core!ops.index.Index./Output $ TYPE%alloc!string.String. I&. I&) (proj%core!slice.index.SliceIndex./Output
      I&. I& $slice STRSLICE
   )))
   :pattern ((proj%core!ops.index.Index./Output $ TYPE%alloc!string.String. I&. I&))
   :qid internal_proj__core!ops.index.Index./Output_alloc__string__impl&__33_assoc_type_impl_false_definition
   :skolemid skolem_internal_proj__core!ops.index.Index./Output_alloc__string__impl&__33_assoc_type_impl_false_definition
)))
(assert
 (= (proj%%core!hash.BuildHasher./Hasher $ TYPE%std!hash.random.RandomState.) $)
)
(assert
 (= (proj%core!hash.BuildHasher./Hasher $ TYPE%std!hash.random.RandomState.) TYPE%std!hash.random.DefaultHasher.)
)
(assert
 (forall ((T&. Dcr) (T& Type)) (!
   (=>
    (sized T&.)
    (= (proj%%core!slice.index.SliceIndex./Output $ USIZE $slice (SLICE T&. T&)) T&.)
   )
   :pattern ((proj%%core!slice.index.SliceIndex./Output $ USIZE $slice (SLICE T&. T&)))
   :qid internal_proj____core!slice.index.SliceIndex./Output_core__slice__index__impl&__2_assoc_type_impl_true_definition
   :skolemid skolem_internal_proj____core!slice.index.SliceIndex./Output_core__slice__index__impl&__2_assoc_type_impl_true_definition
)))
(assert
 (forall ((T&. Dcr) (T& Type)) (!
   (=>
    (sized T&.)
    (= (proj%core!slice.index.SliceIndex./Output $ USIZE $slice (SLICE T&. T&)) T&)
   )
   :pattern ((proj%core!slice.index.SliceIndex./Output $ USIZE $slice (SLICE T&. T&)))
   :qid internal_proj__core!slice.index.SliceIndex./Output_core__slice__index__impl&__2_assoc_type_impl_false_definition
   :skolemid skolem_internal_proj__core!slice.index.SliceIndex./Output_core__slice__index__impl&__2_assoc_type_impl_false_definition
)))
(assert
 (forall ((T&. Dcr) (T& Type)) (!
   (=>
    (sized T&.)
    (= (proj%%core!slice.index.SliceIndex./Output (DST $) (TYPE%tuple%2. $ (TYPE%core!ops.range.Bound.
        $ USIZE
       ) $ (TYPE%core!ops.range.Bound. $ USIZE)
      ) $slice (SLICE T&. T&)
     ) $slice
   ))
   :pattern ((proj%%core!slice.index.SliceIndex./Output (DST $) (TYPE%tuple%2. $ (TYPE%core!ops.range.Bound.
       $ USIZE
      ) $ (TYPE%core!ops.range.Bound. $ USIZE)
     ) $slice (SLICE T&. T&)
   ))
   :qid internal_proj____core!slice.index.SliceIndex./Output_core__slice__index__impl&__14_assoc_type_impl_true_definition
   :skolemid skolem_internal_proj____core!slice.index.SliceIndex./Output_core__slice__index__impl&__14_assoc_type_impl_true_definition
)))
(assert
 (forall ((T&. Dcr) (T& Type)) (!
   (=>
    (sized T&.)
    (= (proj%core!slice.index.SliceIndex./Output (DST $) (TYPE%tuple%2. $ (TYPE%core!ops.range.Bound.
        $ USIZE
       ) $ (TYPE%core!ops.range.Bound. $ USIZE)
      ) $slice (SLICE T&. T&)
     ) (SLICE T&. T&)
   ))
   :pattern ((proj%core!slice.index.SliceIndex./Output (DST $) (TYPE%tuple%2. $ (TYPE%core!ops.range.Bound.
       $ USIZE
      ) $ (TYPE%core!ops.range.Bound. $ USIZE)
     ) $slice (SLICE T&. T&)
   ))
   :qid internal_proj__core!slice.index.SliceIndex./Output_core__slice__index__impl&__14_assoc_type_impl_false_definition
   :skolemid skolem_internal_proj__core!slice.index.SliceIndex./Output_core__slice__index__impl&__14_assoc_type_impl_false_definition
)))
(assert
 (= (proj%%core!slice.index.SliceIndex./Output (DST $) (TYPE%tuple%2. $ (TYPE%core!ops.range.Bound.
     $ USIZE
    ) $ (TYPE%core!ops.range.Bound. $ USIZE)
   ) $slice STRSLICE
  ) $slice
))
(assert
 (= (proj%core!slice.index.SliceIndex./Output (DST $) (TYPE%tuple%2. $ (TYPE%core!ops.range.Bound.
     $ USIZE
    ) $ (TYPE%core!ops.range.Bound. $ USIZE)
   ) $slice STRSLICE
  ) STRSLICE
))
(assert
 (forall ((Self%&. Dcr) (Self%& Type) (Idx&. Dcr) (Idx& Type)) (!
   (=>
    (and
     (tr_bound%core!ops.index.Index. Self%&. Self%& Idx&. Idx&)
     (sized Idx&.)
    )
    (= (proj%%core!ops.function.FnOnce./Output $ (FNDEF%core!ops.index.Index.index. Self%&.
       Self%& Idx&. Idx&
      ) (DST Idx&.) (TYPE%tuple%2. (REF Self%&.) Self%& Idx&. Idx&)
     ) (REF (proj%%core!ops.index.Index./Output Self%&. Self%& Idx&. Idx&))
   ))
   :pattern ((proj%%core!ops.function.FnOnce./Output $ (FNDEF%core!ops.index.Index.index.
      Self%&. Self%& Idx&. Idx&
     ) (DST Idx&.) (TYPE%tuple%2. (REF Self%&.) Self%& Idx&. Idx&)
   ))
   :qid internal_proj____core!ops.function.FnOnce./Output_core__ops__index__Index__index__impl_fndef&__FnOnce_assoc_type_impl_true_definition
   :skolemid skolem_internal_proj____core!ops.function.FnOnce./Output_core__ops__index__Index__index__impl_fndef&__FnOnce_assoc_type_impl_true_definition
)))
(assert
 (forall ((Self%&. Dcr) (Self%& Type) (Idx&. Dcr) (Idx& Type)) (!
   (=>
    (and
     (tr_bound%core!ops.index.Index. Self%&. Self%& Idx&. Idx&)
     (sized Idx&.)
    )
    (= (proj%core!ops.function.FnOnce./Output $ (FNDEF%core!ops.index.Index.index. Self%&.
       Self%& Idx&. Idx&
      ) (DST Idx&.) (TYPE%tuple%2. (REF Self%&.) Self%& Idx&. Idx&)
     ) (proj%core!ops.index.Index./Output Self%&. Self%& Idx&. Idx&)
   ))
   :pattern ((proj%core!ops.function.FnOnce./Output $ (FNDEF%core!ops.index.Index.index.
      Self%&. Self%& Idx&. Idx&
     ) (DST Idx&.) (TYPE%tuple%2. (REF Self%&.) Self%& Idx&. Idx&)
   ))
   :qid internal_proj__core!ops.function.FnOnce./Output_core__ops__index__Index__index__impl_fndef&__FnOnce_assoc_type_impl_false_definition
   :skolemid skolem_internal_proj__core!ops.function.FnOnce./Output_core__ops__index__Index__index__impl_fndef&__FnOnce_assoc_type_impl_false_definition
)))
(assert
 (forall ((T&. Dcr) (T& Type) (I&. Dcr) (I& Type)) (!
   (=>
    (and
     (sized T&.)
     (sized I&.)
     (tr_bound%core!slice.index.SliceIndex. I&. I& $slice (SLICE T&. T&))
    )
    (= (proj%%core!ops.function.FnOnce./Output $ (FNDEF%core!ops.index.Index.index. $slice
       (SLICE T&. T&) I&. I&
      ) (DST I&.) (TYPE%tuple%2. (REF $slice) (SLICE T&. T&) I&. I&)
     ) (REF (proj%%core!slice.index.SliceIndex./Output I&. I& $slice (SLICE T&. T&)))
   ))
   :pattern ((proj%%core!ops.function.FnOnce./Output $ (FNDEF%core!ops.index.Index.index.
      $slice (SLICE T&. T&) I&. I&
     ) (DST I&.) (TYPE%tuple%2. (REF $slice) (SLICE T&. T&) I&. I&)
   ))
   :qid internal_proj____core!ops.function.FnOnce./Output_core__slice__index__impl&__0__index__impl_fndef&__FnOnce_assoc_type_impl_true_definition
   :skolemid skolem_internal_proj____core!ops.function.FnOnce./Output_core__slice__index__impl&__0__index__impl_fndef&__FnOnce_assoc_type_impl_true_definition
)))
(assert
 (forall ((T&. Dcr) (T& Type) (I&. Dcr) (I& Type)) (!
   (=>
    (and
     (sized T&.)
     (sized I&.)
     (tr_bound%core!slice.index.SliceIndex. I&. I& $slice (SLICE T&. T&))
    )
    (= (proj%core!ops.function.FnOnce./Output $ (FNDEF%core!ops.index.Index.index. $slice
       (SLICE T&. T&) I&. I&
      ) (DST I&.) (TYPE%tuple%2. (REF $slice) (SLICE T&. T&) I&. I&)
     ) (proj%core!slice.index.SliceIndex./Output I&. I& $slice (SLICE T&. T&))
   ))
   :pattern ((proj%core!ops.function.FnOnce./Output $ (FNDEF%core!ops.index.Index.index.
      $slice (SLICE T&. T&) I&. I&
     ) (DST I&.) (TYPE%tuple%2. (REF $slice) (SLICE T&. T&) I&. I&)
   ))
   :qid internal_proj__core!ops.function.FnOnce./Output_core__slice__index__impl&__0__index__impl_fndef&__FnOnce_assoc_type_impl_false_definition
   :skolemid skolem_internal_proj__core!ops.function.FnOnce./Output_core__slice__index__impl&__0__index__impl_fndef&__FnOnce_assoc_type_impl_false_definition
)))
(assert
 (forall ((T&. Dcr) (T& Type) (I&. Dcr) (I& Type) (N&. Dcr) (N& Type)) (!
   (=>
    (and
     (sized T&.)
     (sized I&.)
     (uInv SZ (const_int N&))
     (tr_bound%core!ops.index.Index. $slice (SLICE T&. T&) I&. I&)
    )
    (= (proj%%core!ops.function.FnOnce./Output $ (FNDEF%core!ops.index.Index.index. $ (ARRAY
        T&. T& N&. N&
       ) I&. I&
      ) (DST I&.) (TYPE%tuple%2. (REF $) (ARRAY T&. T& N&. N&) I&. I&)
     ) (REF (proj%%core!ops.index.Index./Output $slice (SLICE T&. T&) I&. I&))
   ))
   :pattern ((proj%%core!ops.function.FnOnce./Output $ (FNDEF%core!ops.index.Index.index.
      $ (ARRAY T&. T& N&. N&) I&. I&
     ) (DST I&.) (TYPE%tuple%2. (REF $) (ARRAY T&. T& N&. N&) I&. I&)
   ))
   :qid internal_proj____core!ops.function.FnOnce./Output_core__array__impl&__15__index__impl_fndef&__FnOnce_assoc_type_impl_true_definition
   :skolemid skolem_internal_proj____core!ops.function.FnOnce./Output_core__array__impl&__15__index__impl_fndef&__FnOnce_assoc_type_impl_true_definition
)))
(assert
 (forall ((T&. Dcr) (T& Type) (I&. Dcr) (I& Type) (N&. Dcr) (N& Type)) (!
   (=>
    (and
     (sized T&.)
     (sized I&.)
     (uInv SZ (const_int N&))
     (tr_bound%core!ops.index.Index. $slice (SLICE T&. T&) I&. I&)
    )
    (= (proj%core!ops.function.FnOnce./Output $ (FNDEF%core!ops.index.Index.index. $ (ARRAY
        T&. T& N&. N&
       ) I&. I&
      ) (DST I&.) (TYPE%tuple%2. (REF $) (ARRAY T&. T& N&. N&) I&. I&)
     ) (proj%core!ops.index.Index./Output $slice (SLICE T&. T&) I&. I&)
   ))
   :pattern ((proj%core!ops.function.FnOnce./Output $ (FNDEF%core!ops.index.Index.index.
      $ (ARRAY T&. T& N&. N&) I&. I&
     ) (DST I&.) (TYPE%tuple%2. (REF $) (ARRAY T&. T& N&. N&) I&. I&)
   ))
   :qid internal_proj__core!ops.function.FnOnce./Output_core__array__impl&__15__index__impl_fndef&__FnOnce_assoc_type_impl_false_definition
   :skolemid skolem_internal_proj__core!ops.function.FnOnce./Output_core__array__impl&__15__index__impl_fndef&__FnOnce_assoc_type_impl_false_definition
)))
(assert
 (forall ((Self%&. Dcr) (Self%& Type) (T&. Dcr) (T& Type)) (!
   (=>
    (tr_bound%core!slice.index.SliceIndex. Self%&. Self%& T&. T&)
    (= (proj%%core!ops.function.FnOnce./Output $ (FNDEF%core!slice.index.SliceIndex.index.
       Self%&. Self%& T&. T&
      ) (DST (REF T&.)) (TYPE%tuple%2. Self%&. Self%& (REF T&.) T&)
     ) (REF (proj%%core!slice.index.SliceIndex./Output Self%&. Self%& T&. T&))
   ))
   :pattern ((proj%%core!ops.function.FnOnce./Output $ (FNDEF%core!slice.index.SliceIndex.index.
      Self%&. Self%& T&. T&
     ) (DST (REF T&.)) (TYPE%tuple%2. Self%&. Self%& (REF T&.) T&)
   ))
   :qid internal_proj____core!ops.function.FnOnce./Output_core__slice__index__SliceIndex__index__impl_fndef&__FnOnce_assoc_type_impl_true_definition
   :skolemid skolem_internal_proj____core!ops.function.FnOnce./Output_core__slice__index__SliceIndex__index__impl_fndef&__FnOnce_assoc_type_impl_true_definition
)))
(assert
 (forall ((Self%&. Dcr) (Self%& Type) (T&. Dcr) (T& Type)) (!
   (=>
    (tr_bound%core!slice.index.SliceIndex. Self%&. Self%& T&. T&)
    (= (proj%core!ops.function.FnOnce./Output $ (FNDEF%core!slice.index.SliceIndex.index.
       Self%&. Self%& T&. T&
      ) (DST (REF T&.)) (TYPE%tuple%2. Self%&. Self%& (REF T&.) T&)
     ) (proj%core!slice.index.SliceIndex./Output Self%&. Self%& T&. T&)
   ))
   :pattern ((proj%core!ops.function.FnOnce./Output $ (FNDEF%core!slice.index.SliceIndex.index.
      Self%&. Self%& T&. T&
     ) (DST (REF T&.)) (TYPE%tuple%2. Self%&. Self%& (REF T&.) T&)
   ))
   :qid internal_proj__core!ops.function.FnOnce./Output_core__slice__index__SliceIndex__index__impl_fndef&__FnOnce_assoc_type_impl_false_definition
   :skolemid skolem_internal_proj__core!ops.function.FnOnce./Output_core__slice__index__SliceIndex__index__impl_fndef&__FnOnce_assoc_type_impl_false_definition
)))

;; Function-Decl vstd::seq::Seq::len
(declare-fun vstd!seq.Seq.len.? (Dcr Type Poly) Int)

;; Function-Decl vstd::seq::Seq::index
(declare-fun vstd!seq.Seq.index.? (Dcr Type Poly Poly) Poly)

;; Function-Decl vstd::seq::impl&%2::spec_index
(declare-fun vstd!seq.impl&%2.spec_index.? (Dcr Type Poly Poly) Poly)

;; Function-Decl vstd::seq::Seq::subrange
(declare-fun vstd!seq.Seq.subrange.? (Dcr Type Poly Poly Poly) Poly)

;; Function-Decl vstd::seq::Seq::empty
(declare-fun vstd!seq.Seq.empty.? (Dcr Type) Poly)

;; Function-Decl vstd::seq::Seq::new
(declare-fun vstd!seq.Seq.new.? (Dcr Type Poly Poly) Poly)

;; Function-Decl vstd::seq::Seq::push
(declare-fun vstd!seq.Seq.push.? (Dcr Type Poly Poly) Poly)

;; Function-Decl vstd::seq::Seq::add
(declare-fun vstd!seq.Seq.add.? (Dcr Type Poly Poly) Poly)

;; Function-Decl vstd::seq::impl&%2::spec_add
(declare-fun vstd!seq.impl&%2.spec_add.? (Dcr Type Poly Poly) Poly)

;; Function-Decl vstd::iset::ISet::contains
(declare-fun vstd!iset.ISet.contains.? (Dcr Type Poly Poly) Bool)

;; Function-Decl vstd::set::impl&%0::to_iset
(declare-fun vstd!set.impl&%0.to_iset.? (Dcr Type Poly) Poly)

;; Function-Decl vstd::set::Set::contains
(declare-fun vstd!set.Set.contains.? (Dcr Type Poly Poly) Bool)

;; Function-Decl vstd::map::impl&%0::dom
(declare-fun vstd!map.impl&%0.dom.? (Dcr Type Dcr Type Poly) Poly)

;; Function-Decl vstd::map::impl&%0::index
(declare-fun vstd!map.impl&%0.index.? (Dcr Type Dcr Type Poly Poly) Poly)

;; Function-Decl vstd::map::impl&%0::spec_index
(declare-fun vstd!map.impl&%0.spec_index.? (Dcr Type Dcr Type Poly Poly) Poly)

;; Function-Decl vstd::slice::spec_slice_len
(declare-fun vstd!slice.spec_slice_len.? (Dcr Type Poly) Int)

;; Function-Decl vstd::view::View::view
(declare-fun vstd!view.View.view.? (Dcr Type Poly) Poly)
(declare-fun vstd!view.View.view%default%.? (Dcr Type Poly) Poly)

;; Function-Decl vstd::slice::len%returns_clause_autospec
(declare-fun vstd!slice.len%returns_clause_autospec.? (Dcr Type Poly) Int)

;; Function-Decl vstd::slice::SliceAdditionalSpecFns::spec_index
(declare-fun vstd!slice.SliceAdditionalSpecFns.spec_index.? (Dcr Type Dcr Type Poly
  Poly
 ) Poly
)
(declare-fun vstd!slice.SliceAdditionalSpecFns.spec_index%default%.? (Dcr Type Dcr
  Type Poly Poly
 ) Poly
)

;; Function-Decl vstd::array::array_view
(declare-fun vstd!array.array_view.? (Dcr Type Dcr Type Poly) Poly)

;; Function-Decl vstd::array::ArrayAdditionalSpecFns::spec_index
(declare-fun vstd!array.ArrayAdditionalSpecFns.spec_index.? (Dcr Type Dcr Type Poly
  Poly
 ) Poly
)
(declare-fun vstd!array.ArrayAdditionalSpecFns.spec_index%default%.? (Dcr Type Dcr
  Type Poly Poly
 ) Poly
)

;; Function-Decl vstd::array::spec_array_as_slice
(declare-fun vstd!array.spec_array_as_slice.? (Dcr Type Dcr Type Poly) Poly)

;; Function-Decl vstd::raw_ptr::view_reverse_for_eq
(declare-fun vstd!raw_ptr.view_reverse_for_eq.? (Dcr Type Poly) Poly)

;; Function-Decl vstd::raw_ptr::view_reverse_for_eq_sized
(declare-fun vstd!raw_ptr.view_reverse_for_eq_sized.? (Dcr Type Poly Poly) Poly)

;; Function-Decl vstd::std_specs::hash::obeys_key_model
(declare-fun vstd!std_specs.hash.obeys_key_model.? (Dcr Type) Bool)

;; Function-Decl vstd::std_specs::nonzero::ZeroablePrimitiveSpec::is_zero
(declare-fun vstd!std_specs.nonzero.ZeroablePrimitiveSpec.is_zero.? (Dcr Type Poly)
 Poly
)
(declare-fun vstd!std_specs.nonzero.ZeroablePrimitiveSpec.is_zero%default%.? (Dcr Type
  Poly
 ) Poly
)

;; Function-Decl vstd::std_specs::convert::FromSpec::obeys_from_spec
(declare-fun vstd!std_specs.convert.FromSpec.obeys_from_spec.? (Dcr Type Dcr Type)
 Poly
)
(declare-fun vstd!std_specs.convert.FromSpec.obeys_from_spec%default%.? (Dcr Type Dcr
  Type
 ) Poly
)

;; Function-Decl vstd::std_specs::convert::FromSpec::from_spec
(declare-fun vstd!std_specs.convert.FromSpec.from_spec.? (Dcr Type Dcr Type Poly)
 Poly
)
(declare-fun vstd!std_specs.convert.FromSpec.from_spec%default%.? (Dcr Type Dcr Type
  Poly
 ) Poly
)

;; Function-Decl vstd::std_specs::core::IndexSpec::index_req
(declare-fun vstd!std_specs.core.IndexSpec.index_req.? (Dcr Type Dcr Type Poly Poly)
 Poly
)
(declare-fun vstd!std_specs.core.IndexSpec.index_req%default%.? (Dcr Type Dcr Type
  Poly Poly
 ) Poly
)

;; Function-Decl vstd::std_specs::range::RangeBoundsSpec::spec_start_bound
(declare-fun vstd!std_specs.range.RangeBoundsSpec.spec_start_bound.? (Dcr Type Dcr
  Type Poly
 ) Poly
)
(declare-fun vstd!std_specs.range.RangeBoundsSpec.spec_start_bound%default%.? (Dcr
  Type Dcr Type Poly
 ) Poly
)

;; Function-Decl vstd::std_specs::range::RangeBoundsSpec::spec_end_bound
(declare-fun vstd!std_specs.range.RangeBoundsSpec.spec_end_bound.? (Dcr Type Dcr Type
  Poly
 ) Poly
)
(declare-fun vstd!std_specs.range.RangeBoundsSpec.spec_end_bound%default%.? (Dcr Type
  Dcr Type Poly
 ) Poly
)

;; Function-Decl vstd::slice::SliceIndexSpec::in_bounds
(declare-fun vstd!slice.SliceIndexSpec.in_bounds.? (Dcr Type Dcr Type Poly Poly) Poly)
(declare-fun vstd!slice.SliceIndexSpec.in_bounds%default%.? (Dcr Type Dcr Type Poly
  Poly
 ) Poly
)

;; Function-Decl vstd::slice::SliceIndexSpec::index_postcondition
(declare-fun vstd!slice.SliceIndexSpec.index_postcondition.? (Dcr Type Dcr Type Poly
  Poly Poly
 ) Poly
)
(declare-fun vstd!slice.SliceIndexSpec.index_postcondition%default%.? (Dcr Type Dcr
  Type Poly Poly Poly
 ) Poly
)

;; Function-Decl vstd::string::StringSliceAdditionalSpecFns::spec_bytes
(declare-fun vstd!string.StringSliceAdditionalSpecFns.spec_bytes.? (Dcr Type Poly)
 Poly
)
(declare-fun vstd!string.StringSliceAdditionalSpecFns.spec_bytes%default%.? (Dcr Type
  Poly
 ) Poly
)

;; Function-Decl vstd::std_specs::range::bound_as_ref
(declare-fun vstd!std_specs.range.bound_as_ref.? (Dcr Type Poly) core!ops.range.Bound.)

;; Function-Decl vstd::std_specs::range::slice_range_start
(declare-fun vstd!std_specs.range.slice_range_start.? (Dcr Type Poly) Int)

;; Function-Decl vstd::std_specs::range::slice_range_end
(declare-fun vstd!std_specs.range.slice_range_end.? (Dcr Type Poly Poly) Int)

;; Function-Decl vstd::std_specs::range::slice_range_valid
(declare-fun vstd!std_specs.range.slice_range_valid.? (Dcr Type Poly Poly) Bool)

;; Function-Decl vstd::std_specs::nonzero::nonzero_spec_get
(declare-fun vstd!std_specs.nonzero.nonzero_spec_get.? (Dcr Type Poly) Poly)

;; Function-Decl vstd::map_lib::impl&%0::contains_key
(declare-fun vstd!map_lib.impl&%0.contains_key.? (Dcr Type Dcr Type Poly Poly) Bool)

;; Function-Decl vstd::seq_lib::impl&%0::drop_first
(declare-fun vstd!seq_lib.impl&%0.drop_first.? (Dcr Type Poly) Poly)

;; Function-Decl vstd::utf8::has_width_1_encoding
(declare-fun vstd!utf8.has_width_1_encoding.? (Poly) Bool)

;; Function-Decl vstd::utf8::has_width_2_encoding
(declare-fun vstd!utf8.has_width_2_encoding.? (Poly) Bool)

;; Function-Decl vstd::utf8::has_width_3_encoding
(declare-fun vstd!utf8.has_width_3_encoding.? (Poly) Bool)

;; Function-Decl vstd::utf8::has_width_4_encoding
(declare-fun vstd!utf8.has_width_4_encoding.? (Poly) Bool)

;; Function-Decl vstd::utf8::is_scalar
(declare-fun vstd!utf8.is_scalar.? (Poly) Bool)

;; Function-Decl vstd::utf8::leading_byte_width_1
(declare-fun vstd!utf8.leading_byte_width_1.? (Poly) Int)

;; Function-Decl vstd::utf8::leading_byte_width_2
(declare-fun vstd!utf8.leading_byte_width_2.? (Poly) Int)

;; Function-Decl vstd::utf8::last_continuation_byte
(declare-fun vstd!utf8.last_continuation_byte.? (Poly) Int)

;; Function-Decl vstd::utf8::leading_byte_width_3
(declare-fun vstd!utf8.leading_byte_width_3.? (Poly) Int)

;; Function-Decl vstd::utf8::second_last_continuation_byte
(declare-fun vstd!utf8.second_last_continuation_byte.? (Poly) Int)

;; Function-Decl vstd::utf8::leading_byte_width_4
(declare-fun vstd!utf8.leading_byte_width_4.? (Poly) Int)

;; Function-Decl vstd::utf8::third_last_continuation_byte
(declare-fun vstd!utf8.third_last_continuation_byte.? (Poly) Int)

;; Function-Decl vstd::utf8::encode_scalar
(declare-fun vstd!utf8.encode_scalar.? (Poly) vstd!seq.Seq<u8.>.)

;; Function-Decl vstd::utf8::encode_utf8
(declare-fun vstd!utf8.encode_utf8.? (Poly) vstd!seq.Seq<u8.>.)
(declare-fun vstd!utf8.rec%encode_utf8.? (Poly Fuel) vstd!seq.Seq<u8.>.)

;; Function-Decl vstd::utf8::is_leading_byte_width_1
(declare-fun vstd!utf8.is_leading_byte_width_1.? (Poly) Bool)

;; Function-Decl vstd::utf8::is_leading_byte_width_2
(declare-fun vstd!utf8.is_leading_byte_width_2.? (Poly) Bool)

;; Function-Decl vstd::utf8::is_continuation_byte
(declare-fun vstd!utf8.is_continuation_byte.? (Poly) Bool)

;; Function-Decl vstd::utf8::is_leading_byte_width_3
(declare-fun vstd!utf8.is_leading_byte_width_3.? (Poly) Bool)

;; Function-Decl vstd::utf8::is_leading_byte_width_4
(declare-fun vstd!utf8.is_leading_byte_width_4.? (Poly) Bool)

;; Function-Decl vstd::utf8::valid_leading_and_continuation_bytes_first_codepoint
(declare-fun vstd!utf8.valid_leading_and_continuation_bytes_first_codepoint.? (Poly)
 Bool
)

;; Function-Decl vstd::utf8::not_overlong_encoding
(declare-fun vstd!utf8.not_overlong_encoding.? (Poly Poly) Bool)

;; Function-Decl vstd::utf8::leading_bits_width_1
(declare-fun vstd!utf8.leading_bits_width_1.? (Poly) Int)

;; Function-Decl vstd::utf8::codepoint_width_1
(declare-fun vstd!utf8.codepoint_width_1.? (Poly) Int)

;; Function-Decl vstd::utf8::leading_bits_width_2
(declare-fun vstd!utf8.leading_bits_width_2.? (Poly) Int)

;; Function-Decl vstd::utf8::continuation_bits
(declare-fun vstd!utf8.continuation_bits.? (Poly) Int)

;; Function-Decl vstd::utf8::codepoint_width_2
(declare-fun vstd!utf8.codepoint_width_2.? (Poly Poly) Int)

;; Function-Decl vstd::utf8::leading_bits_width_3
(declare-fun vstd!utf8.leading_bits_width_3.? (Poly) Int)

;; Function-Decl vstd::utf8::codepoint_width_3
(declare-fun vstd!utf8.codepoint_width_3.? (Poly Poly Poly) Int)

;; Function-Decl vstd::utf8::leading_bits_width_4
(declare-fun vstd!utf8.leading_bits_width_4.? (Poly) Int)

;; Function-Decl vstd::utf8::codepoint_width_4
(declare-fun vstd!utf8.codepoint_width_4.? (Poly Poly Poly Poly) Int)

;; Function-Decl vstd::utf8::decode_first_codepoint
(declare-fun vstd!utf8.decode_first_codepoint.? (Poly) Int)

;; Function-Decl vstd::utf8::length_of_first_codepoint
(declare-fun vstd!utf8.length_of_first_codepoint.? (Poly) Int)

;; Function-Decl vstd::utf8::not_surrogate
(declare-fun vstd!utf8.not_surrogate.? (Poly) Bool)

;; Function-Decl vstd::utf8::valid_first_scalar
(declare-fun vstd!utf8.valid_first_scalar.? (Poly) Bool)

;; Function-Decl vstd::utf8::length_of_first_scalar
(declare-fun vstd!utf8.length_of_first_scalar.? (Poly) Int)

;; Function-Decl vstd::utf8::pop_first_scalar
(declare-fun vstd!utf8.pop_first_scalar.? (Poly) vstd!seq.Seq<u8.>.)

;; Function-Decl vstd::utf8::valid_utf8
(declare-fun vstd!utf8.valid_utf8.? (Poly) Bool)
(declare-fun vstd!utf8.rec%valid_utf8.? (Poly Fuel) Bool)

;; Function-Decl vstd::utf8::is_char_boundary
(declare-fun vstd!utf8.is_char_boundary.? (Poly Poly) Bool)
(declare-fun vstd!utf8.rec%is_char_boundary.? (Poly Poly Fuel) Bool)

;; Function-Decl vstd::string::str_slice_in_bounds
(declare-fun vstd!string.str_slice_in_bounds.? (Dcr Type Poly Poly) Bool)

;; Function-Decl vstd::string::str_slice_index_postcondition
(declare-fun vstd!string.str_slice_index_postcondition.? (Dcr Type Poly Poly Poly)
 Bool
)

;; Function-Decl scratch_sign_b::LF
(declare-fun scratch_sign_b!LF.? () strslice%.)

;; Function-Axioms vstd::seq::Seq::len
(assert
 (forall ((A&. Dcr) (A& Type) (self! Poly)) (!
   (=>
    (has_type self! (TYPE%vstd!seq.Seq. A&. A&))
    (<= 0 (vstd!seq.Seq.len.? A&. A& self!))
   )
   :pattern ((vstd!seq.Seq.len.? A&. A& self!))
   :qid internal_vstd!seq.Seq.len.?_pre_post_definition
   :skolemid skolem_internal_vstd!seq.Seq.len.?_pre_post_definition
)))

;; Function-Specs vstd::seq::Seq::index
(declare-fun req%vstd!seq.Seq.index. (Dcr Type Poly Poly) Bool)
(declare-const %%global_location_label%%0 Bool)
(assert
 (forall ((A&. Dcr) (A& Type) (self! Poly) (i! Poly)) (!
   (= (req%vstd!seq.Seq.index. A&. A& self! i!) (=>
     %%global_location_label%%0
     (let
      ((tmp%%$ 0))
      (let
       ((tmp%%$1 (%I i!)))
       (let
        ((tmp%%$2 (vstd!seq.Seq.len.? A&. A& self!)))
        (and
         (<= tmp%%$ tmp%%$1)
         (< tmp%%$1 tmp%%$2)
   ))))))
   :pattern ((req%vstd!seq.Seq.index. A&. A& self! i!))
   :qid internal_req__vstd!seq.Seq.index._definition
   :skolemid skolem_internal_req__vstd!seq.Seq.index._definition
)))

;; Function-Axioms vstd::seq::Seq::index
(assert
 (forall ((A&. Dcr) (A& Type) (self! Poly) (i! Poly)) (!
   (=>
    (and
     (has_type self! (TYPE%vstd!seq.Seq. A&. A&))
     (has_type i! INT)
    )
    (has_type (vstd!seq.Seq.index.? A&. A& self! i!) A&)
   )
   :pattern ((vstd!seq.Seq.index.? A&. A& self! i!))
   :qid internal_vstd!seq.Seq.index.?_pre_post_definition
   :skolemid skolem_internal_vstd!seq.Seq.index.?_pre_post_definition
)))

;; Function-Specs vstd::seq::impl&%2::spec_index
(declare-fun req%vstd!seq.impl&%2.spec_index. (Dcr Type Poly Poly) Bool)
(declare-const %%global_location_label%%1 Bool)
(assert
 (forall ((A&. Dcr) (A& Type) (self! Poly) (i! Poly)) (!
   (= (req%vstd!seq.impl&%2.spec_index. A&. A& self! i!) (=>
     %%global_location_label%%1
     (let
      ((tmp%%$ 0))
      (let
       ((tmp%%$1 (%I i!)))
       (let
        ((tmp%%$2 (vstd!seq.Seq.len.? A&. A& self!)))
        (and
         (<= tmp%%$ tmp%%$1)
         (< tmp%%$1 tmp%%$2)
   ))))))
   :pattern ((req%vstd!seq.impl&%2.spec_index. A&. A& self! i!))
   :qid internal_req__vstd!seq.impl&__2.spec_index._definition
   :skolemid skolem_internal_req__vstd!seq.impl&__2.spec_index._definition
)))

;; Function-Axioms vstd::seq::impl&%2::spec_index
(assert
 (fuel_bool_default fuel%vstd!seq.impl&%2.spec_index.)
)
(assert
 (=>
  (fuel_bool fuel%vstd!seq.impl&%2.spec_index.)
  (forall ((A&. Dcr) (A& Type) (self! Poly) (i! Poly)) (!
    (= (vstd!seq.impl&%2.spec_index.? A&. A& self! i!) (vstd!seq.Seq.index.? A&. A& self!
      i!
    ))
    :pattern ((vstd!seq.impl&%2.spec_index.? A&. A& self! i!))
    :qid internal_vstd!seq.impl&__2.spec_index.?_definition
    :skolemid skolem_internal_vstd!seq.impl&__2.spec_index.?_definition
))))
(assert
 (forall ((A&. Dcr) (A& Type) (self! Poly) (i! Poly)) (!
   (=>
    (and
     (has_type self! (TYPE%vstd!seq.Seq. A&. A&))
     (has_type i! INT)
    )
    (has_type (vstd!seq.impl&%2.spec_index.? A&. A& self! i!) A&)
   )
   :pattern ((vstd!seq.impl&%2.spec_index.? A&. A& self! i!))
   :qid internal_vstd!seq.impl&__2.spec_index.?_pre_post_definition
   :skolemid skolem_internal_vstd!seq.impl&__2.spec_index.?_pre_post_definition
)))

;; Broadcast vstd::seq::lemma_seq_index_decreases
(assert
 (=>
  (fuel_bool fuel%vstd!seq.lemma_seq_index_decreases.)
  (forall ((A&. Dcr) (A& Type) (s! Poly) (i! Poly)) (!
    (=>
     (and
      (has_type s! (TYPE%vstd!seq.Seq. A&. A&))
      (has_type i! INT)
     )
     (=>
      (and
       (sized A&.)
       (let
        ((tmp%%$ 0))
        (let
         ((tmp%%$1 (%I i!)))
         (let
          ((tmp%%$2 (vstd!seq.Seq.len.? A&. A& s!)))
          (and
           (<= tmp%%$ tmp%%$1)
           (< tmp%%$1 tmp%%$2)
      )))))
      (height_lt (height (vstd!seq.Seq.index.? A&. A& s! i!)) (height s!))
    ))
    :pattern ((height (vstd!seq.Seq.index.? A&. A& s! i!)))
    :qid user_vstd__seq__lemma_seq_index_decreases_0
    :skolemid skolem_user_vstd__seq__lemma_seq_index_decreases_0
))))

;; Function-Specs vstd::seq::Seq::subrange
(declare-fun req%vstd!seq.Seq.subrange. (Dcr Type Poly Poly Poly) Bool)
(declare-const %%global_location_label%%2 Bool)
(assert
 (forall ((A&. Dcr) (A& Type) (self! Poly) (start_inclusive! Poly) (end_exclusive! Poly))
  (!
   (= (req%vstd!seq.Seq.subrange. A&. A& self! start_inclusive! end_exclusive!) (=>
     %%global_location_label%%2
     (let
      ((tmp%%$ 0))
      (let
       ((tmp%%$1 (%I start_inclusive!)))
       (let
        ((tmp%%$2 (%I end_exclusive!)))
        (let
         ((tmp%%$3 (vstd!seq.Seq.len.? A&. A& self!)))
         (and
          (and
           (<= tmp%%$ tmp%%$1)
           (<= tmp%%$1 tmp%%$2)
          )
          (<= tmp%%$2 tmp%%$3)
   )))))))
   :pattern ((req%vstd!seq.Seq.subrange. A&. A& self! start_inclusive! end_exclusive!))
   :qid internal_req__vstd!seq.Seq.subrange._definition
   :skolemid skolem_internal_req__vstd!seq.Seq.subrange._definition
)))

;; Function-Axioms vstd::seq::Seq::subrange
(assert
 (forall ((A&. Dcr) (A& Type) (self! Poly) (start_inclusive! Poly) (end_exclusive! Poly))
  (!
   (=>
    (and
     (has_type self! (TYPE%vstd!seq.Seq. A&. A&))
     (has_type start_inclusive! INT)
     (has_type end_exclusive! INT)
    )
    (has_type (vstd!seq.Seq.subrange.? A&. A& self! start_inclusive! end_exclusive!) (
      TYPE%vstd!seq.Seq. A&. A&
   )))
   :pattern ((vstd!seq.Seq.subrange.? A&. A& self! start_inclusive! end_exclusive!))
   :qid internal_vstd!seq.Seq.subrange.?_pre_post_definition
   :skolemid skolem_internal_vstd!seq.Seq.subrange.?_pre_post_definition
)))

;; Broadcast vstd::seq::lemma_seq_subrange_decreases
(assert
 (=>
  (fuel_bool fuel%vstd!seq.lemma_seq_subrange_decreases.)
  (forall ((A&. Dcr) (A& Type) (s! Poly) (i! Poly) (j! Poly)) (!
    (=>
     (and
      (has_type s! (TYPE%vstd!seq.Seq. A&. A&))
      (has_type i! INT)
      (has_type j! INT)
     )
     (=>
      (and
       (and
        (sized A&.)
        (let
         ((tmp%%$ 0))
         (let
          ((tmp%%$1 (%I i!)))
          (let
           ((tmp%%$2 (%I j!)))
           (let
            ((tmp%%$3 (vstd!seq.Seq.len.? A&. A& s!)))
            (and
             (and
              (<= tmp%%$ tmp%%$1)
              (<= tmp%%$1 tmp%%$2)
             )
             (<= tmp%%$2 tmp%%$3)
       ))))))
       (< (vstd!seq.Seq.len.? A&. A& (vstd!seq.Seq.subrange.? A&. A& s! i! j!)) (vstd!seq.Seq.len.?
         A&. A& s!
      )))
      (height_lt (height (vstd!seq.Seq.subrange.? A&. A& s! i! j!)) (height s!))
    ))
    :pattern ((height (vstd!seq.Seq.subrange.? A&. A& s! i! j!)))
    :qid user_vstd__seq__lemma_seq_subrange_decreases_0
    :skolemid skolem_user_vstd__seq__lemma_seq_subrange_decreases_0
))))

;; Function-Axioms vstd::seq::Seq::empty
(assert
 (forall ((A&. Dcr) (A& Type)) (!
   (has_type (vstd!seq.Seq.empty.? A&. A&) (TYPE%vstd!seq.Seq. A&. A&))
   :pattern ((vstd!seq.Seq.empty.? A&. A&))
   :qid internal_vstd!seq.Seq.empty.?_pre_post_definition
   :skolemid skolem_internal_vstd!seq.Seq.empty.?_pre_post_definition
)))

;; Broadcast vstd::seq::lemma_seq_empty
(assert
 (=>
  (fuel_bool fuel%vstd!seq.lemma_seq_empty.)
  (forall ((A&. Dcr) (A& Type)) (!
    (=>
     (sized A&.)
     (= (vstd!seq.Seq.len.? A&. A& (vstd!seq.Seq.empty.? A&. A&)) 0)
    )
    :pattern ((vstd!seq.Seq.len.? A&. A& (vstd!seq.Seq.empty.? A&. A&)))
    :qid user_vstd__seq__lemma_seq_empty_0
    :skolemid skolem_user_vstd__seq__lemma_seq_empty_0
))))

;; Function-Axioms vstd::seq::Seq::new
(assert
 (forall ((A&. Dcr) (A& Type) (len! Poly) (f! Poly)) (!
   (=>
    (and
     (has_type len! NAT)
     (has_type f! (TYPE%fun%1. $ INT A&. A&))
    )
    (has_type (vstd!seq.Seq.new.? A&. A& len! f!) (TYPE%vstd!seq.Seq. A&. A&))
   )
   :pattern ((vstd!seq.Seq.new.? A&. A& len! f!))
   :qid internal_vstd!seq.Seq.new.?_pre_post_definition
   :skolemid skolem_internal_vstd!seq.Seq.new.?_pre_post_definition
)))

;; Broadcast vstd::seq::lemma_seq_new_len
(assert
 (=>
  (fuel_bool fuel%vstd!seq.lemma_seq_new_len.)
  (forall ((A&. Dcr) (A& Type) (len! Poly) (f! Poly)) (!
    (=>
     (and
      (has_type len! NAT)
      (has_type f! (TYPE%fun%1. $ INT A&. A&))
     )
     (=>
      (sized A&.)
      (= (vstd!seq.Seq.len.? A&. A& (vstd!seq.Seq.new.? A&. A& len! f!)) (%I len!))
    ))
    :pattern ((vstd!seq.Seq.len.? A&. A& (vstd!seq.Seq.new.? A&. A& len! f!)))
    :qid user_vstd__seq__lemma_seq_new_len_0
    :skolemid skolem_user_vstd__seq__lemma_seq_new_len_0
))))

;; Broadcast vstd::seq::lemma_seq_new_index
(assert
 (=>
  (fuel_bool fuel%vstd!seq.lemma_seq_new_index.)
  (forall ((A&. Dcr) (A& Type) (len! Poly) (f! Poly) (i! Poly)) (!
    (=>
     (and
      (has_type len! NAT)
      (has_type f! (TYPE%fun%1. $ INT A&. A&))
      (has_type i! INT)
     )
     (=>
      (and
       (sized A&.)
       (let
        ((tmp%%$ 0))
        (let
         ((tmp%%$1 (%I i!)))
         (let
          ((tmp%%$2 (%I len!)))
          (and
           (<= tmp%%$ tmp%%$1)
           (< tmp%%$1 tmp%%$2)
      )))))
      (= (vstd!seq.Seq.index.? A&. A& (vstd!seq.Seq.new.? A&. A& len! f!) i!) (%%apply%%0
        (%Poly%fun%1. f!) i!
    ))))
    :pattern ((vstd!seq.Seq.index.? A&. A& (vstd!seq.Seq.new.? A&. A& len! f!) i!))
    :qid user_vstd__seq__lemma_seq_new_index_0
    :skolemid skolem_user_vstd__seq__lemma_seq_new_index_0
))))

;; Function-Axioms vstd::seq::Seq::push
(assert
 (forall ((A&. Dcr) (A& Type) (self! Poly) (a! Poly)) (!
   (=>
    (and
     (has_type self! (TYPE%vstd!seq.Seq. A&. A&))
     (has_type a! A&)
    )
    (has_type (vstd!seq.Seq.push.? A&. A& self! a!) (TYPE%vstd!seq.Seq. A&. A&))
   )
   :pattern ((vstd!seq.Seq.push.? A&. A& self! a!))
   :qid internal_vstd!seq.Seq.push.?_pre_post_definition
   :skolemid skolem_internal_vstd!seq.Seq.push.?_pre_post_definition
)))

;; Broadcast vstd::seq::lemma_seq_push_len
(assert
 (=>
  (fuel_bool fuel%vstd!seq.lemma_seq_push_len.)
  (forall ((A&. Dcr) (A& Type) (s! Poly) (a! Poly)) (!
    (=>
     (and
      (has_type s! (TYPE%vstd!seq.Seq. A&. A&))
      (has_type a! A&)
     )
     (=>
      (sized A&.)
      (= (vstd!seq.Seq.len.? A&. A& (vstd!seq.Seq.push.? A&. A& s! a!)) (nClip (Add (vstd!seq.Seq.len.?
          A&. A& s!
         ) 1
    )))))
    :pattern ((vstd!seq.Seq.len.? A&. A& (vstd!seq.Seq.push.? A&. A& s! a!)))
    :qid user_vstd__seq__lemma_seq_push_len_0
    :skolemid skolem_user_vstd__seq__lemma_seq_push_len_0
))))

;; Broadcast vstd::seq::lemma_seq_push_index_same
(assert
 (=>
  (fuel_bool fuel%vstd!seq.lemma_seq_push_index_same.)
  (forall ((A&. Dcr) (A& Type) (s! Poly) (a! Poly) (i! Poly)) (!
    (=>
     (and
      (has_type s! (TYPE%vstd!seq.Seq. A&. A&))
      (has_type a! A&)
      (has_type i! INT)
     )
     (=>
      (and
       (sized A&.)
       (= (%I i!) (vstd!seq.Seq.len.? A&. A& s!))
      )
      (= (vstd!seq.Seq.index.? A&. A& (vstd!seq.Seq.push.? A&. A& s! a!) i!) a!)
    ))
    :pattern ((vstd!seq.Seq.index.? A&. A& (vstd!seq.Seq.push.? A&. A& s! a!) i!))
    :qid user_vstd__seq__lemma_seq_push_index_same_0
    :skolemid skolem_user_vstd__seq__lemma_seq_push_index_same_0
))))

;; Broadcast vstd::seq::lemma_seq_push_index_different
(assert
 (=>
  (fuel_bool fuel%vstd!seq.lemma_seq_push_index_different.)
  (forall ((A&. Dcr) (A& Type) (s! Poly) (a! Poly) (i! Poly)) (!
    (=>
     (and
      (has_type s! (TYPE%vstd!seq.Seq. A&. A&))
      (has_type a! A&)
      (has_type i! INT)
     )
     (=>
      (and
       (sized A&.)
       (< (%I i!) (vstd!seq.Seq.len.? A&. A& s!))
      )
      (= (vstd!seq.Seq.index.? A&. A& (vstd!seq.Seq.push.? A&. A& s! a!) i!) (vstd!seq.Seq.index.?
        A&. A& s! i!
    ))))
    :pattern ((vstd!seq.Seq.index.? A&. A& (vstd!seq.Seq.push.? A&. A& s! a!) i!))
    :qid user_vstd__seq__lemma_seq_push_index_different_0
    :skolemid skolem_user_vstd__seq__lemma_seq_push_index_different_0
))))

;; Broadcast vstd::seq::lemma_seq_ext_equal
(assert
 (=>
  (fuel_bool fuel%vstd!seq.lemma_seq_ext_equal.)
  (forall ((A&. Dcr) (A& Type) (s1! Poly) (s2! Poly)) (!
    (=>
     (and
      (has_type s1! (TYPE%vstd!seq.Seq. A&. A&))
      (has_type s2! (TYPE%vstd!seq.Seq. A&. A&))
     )
     (=>
      (sized A&.)
      (= (ext_eq false (TYPE%vstd!seq.Seq. A&. A&) s1! s2!) (and
        (= (vstd!seq.Seq.len.? A&. A& s1!) (vstd!seq.Seq.len.? A&. A& s2!))
        (forall ((i$ Poly)) (!
          (=>
           (has_type i$ INT)
           (=>
            (let
             ((tmp%%$ 0))
             (let
              ((tmp%%$1 (%I i$)))
              (let
               ((tmp%%$2 (vstd!seq.Seq.len.? A&. A& s1!)))
               (and
                (<= tmp%%$ tmp%%$1)
                (< tmp%%$1 tmp%%$2)
            ))))
            (= (vstd!seq.Seq.index.? A&. A& s1! i$) (vstd!seq.Seq.index.? A&. A& s2! i$))
          ))
          :pattern ((vstd!seq.Seq.index.? A&. A& s1! i$))
          :pattern ((vstd!seq.Seq.index.? A&. A& s2! i$))
          :qid user_vstd__seq__lemma_seq_ext_equal_0
          :skolemid skolem_user_vstd__seq__lemma_seq_ext_equal_0
    ))))))
    :pattern ((ext_eq false (TYPE%vstd!seq.Seq. A&. A&) s1! s2!))
    :qid user_vstd__seq__lemma_seq_ext_equal_1
    :skolemid skolem_user_vstd__seq__lemma_seq_ext_equal_1
))))

;; Broadcast vstd::seq::lemma_seq_ext_equal_deep
(assert
 (=>
  (fuel_bool fuel%vstd!seq.lemma_seq_ext_equal_deep.)
  (forall ((A&. Dcr) (A& Type) (s1! Poly) (s2! Poly)) (!
    (=>
     (and
      (has_type s1! (TYPE%vstd!seq.Seq. A&. A&))
      (has_type s2! (TYPE%vstd!seq.Seq. A&. A&))
     )
     (=>
      (sized A&.)
      (= (ext_eq true (TYPE%vstd!seq.Seq. A&. A&) s1! s2!) (and
        (= (vstd!seq.Seq.len.? A&. A& s1!) (vstd!seq.Seq.len.? A&. A& s2!))
        (forall ((i$ Poly)) (!
          (=>
           (has_type i$ INT)
           (=>
            (let
             ((tmp%%$ 0))
             (let
              ((tmp%%$1 (%I i$)))
              (let
               ((tmp%%$2 (vstd!seq.Seq.len.? A&. A& s1!)))
               (and
                (<= tmp%%$ tmp%%$1)
                (< tmp%%$1 tmp%%$2)
            ))))
            (ext_eq true A& (vstd!seq.Seq.index.? A&. A& s1! i$) (vstd!seq.Seq.index.? A&. A& s2!
              i$
          ))))
          :pattern ((vstd!seq.Seq.index.? A&. A& s1! i$))
          :pattern ((vstd!seq.Seq.index.? A&. A& s2! i$))
          :qid user_vstd__seq__lemma_seq_ext_equal_deep_0
          :skolemid skolem_user_vstd__seq__lemma_seq_ext_equal_deep_0
    ))))))
    :pattern ((ext_eq true (TYPE%vstd!seq.Seq. A&. A&) s1! s2!))
    :qid user_vstd__seq__lemma_seq_ext_equal_deep_1
    :skolemid skolem_user_vstd__seq__lemma_seq_ext_equal_deep_1
))))

;; Broadcast vstd::seq::lemma_seq_subrange_len
(assert
 (=>
  (fuel_bool fuel%vstd!seq.lemma_seq_subrange_len.)
  (forall ((A&. Dcr) (A& Type) (s! Poly) (j! Poly) (k! Poly)) (!
    (=>
     (and
      (has_type s! (TYPE%vstd!seq.Seq. A&. A&))
      (has_type j! INT)
      (has_type k! INT)
     )
     (=>
      (and
       (sized A&.)
       (let
        ((tmp%%$ 0))
        (let
         ((tmp%%$1 (%I j!)))
         (let
          ((tmp%%$2 (%I k!)))
          (let
           ((tmp%%$3 (vstd!seq.Seq.len.? A&. A& s!)))
           (and
            (and
             (<= tmp%%$ tmp%%$1)
             (<= tmp%%$1 tmp%%$2)
            )
            (<= tmp%%$2 tmp%%$3)
      ))))))
      (= (vstd!seq.Seq.len.? A&. A& (vstd!seq.Seq.subrange.? A&. A& s! j! k!)) (Sub (%I k!)
        (%I j!)
    ))))
    :pattern ((vstd!seq.Seq.len.? A&. A& (vstd!seq.Seq.subrange.? A&. A& s! j! k!)))
    :qid user_vstd__seq__lemma_seq_subrange_len_0
    :skolemid skolem_user_vstd__seq__lemma_seq_subrange_len_0
))))

;; Broadcast vstd::seq::lemma_seq_subrange_index
(assert
 (=>
  (fuel_bool fuel%vstd!seq.lemma_seq_subrange_index.)
  (forall ((A&. Dcr) (A& Type) (s! Poly) (j! Poly) (k! Poly) (i! Poly)) (!
    (=>
     (and
      (has_type s! (TYPE%vstd!seq.Seq. A&. A&))
      (has_type j! INT)
      (has_type k! INT)
      (has_type i! INT)
     )
     (=>
      (and
       (and
        (sized A&.)
        (let
         ((tmp%%$ 0))
         (let
          ((tmp%%$1 (%I j!)))
          (let
           ((tmp%%$2 (%I k!)))
           (let
            ((tmp%%$3 (vstd!seq.Seq.len.? A&. A& s!)))
            (and
             (and
              (<= tmp%%$ tmp%%$1)
              (<= tmp%%$1 tmp%%$2)
             )
             (<= tmp%%$2 tmp%%$3)
       ))))))
       (let
        ((tmp%%$ 0))
        (let
         ((tmp%%$5 (%I i!)))
         (let
          ((tmp%%$6 (Sub (%I k!) (%I j!))))
          (and
           (<= tmp%%$ tmp%%$5)
           (< tmp%%$5 tmp%%$6)
      )))))
      (= (vstd!seq.Seq.index.? A&. A& (vstd!seq.Seq.subrange.? A&. A& s! j! k!) i!) (vstd!seq.Seq.index.?
        A&. A& s! (I (Add (%I i!) (%I j!)))
    ))))
    :pattern ((vstd!seq.Seq.index.? A&. A& (vstd!seq.Seq.subrange.? A&. A& s! j! k!) i!))
    :qid user_vstd__seq__lemma_seq_subrange_index_0
    :skolemid skolem_user_vstd__seq__lemma_seq_subrange_index_0
))))

;; Broadcast vstd::seq::lemma_seq_two_subranges_index
(assert
 (=>
  (fuel_bool fuel%vstd!seq.lemma_seq_two_subranges_index.)
  (forall ((A&. Dcr) (A& Type) (s! Poly) (j! Poly) (k1! Poly) (k2! Poly) (i! Poly))
   (!
    (=>
     (and
      (has_type s! (TYPE%vstd!seq.Seq. A&. A&))
      (has_type j! INT)
      (has_type k1! INT)
      (has_type k2! INT)
      (has_type i! INT)
     )
     (=>
      (and
       (and
        (and
         (and
          (sized A&.)
          (let
           ((tmp%%$ 0))
           (let
            ((tmp%%$1 (%I j!)))
            (let
             ((tmp%%$2 (%I k1!)))
             (let
              ((tmp%%$3 (vstd!seq.Seq.len.? A&. A& s!)))
              (and
               (and
                (<= tmp%%$ tmp%%$1)
                (<= tmp%%$1 tmp%%$2)
               )
               (<= tmp%%$2 tmp%%$3)
         ))))))
         (let
          ((tmp%%$ 0))
          (let
           ((tmp%%$5 (%I j!)))
           (let
            ((tmp%%$6 (%I k2!)))
            (let
             ((tmp%%$7 (vstd!seq.Seq.len.? A&. A& s!)))
             (and
              (and
               (<= tmp%%$ tmp%%$5)
               (<= tmp%%$5 tmp%%$6)
              )
              (<= tmp%%$6 tmp%%$7)
        ))))))
        (let
         ((tmp%%$ 0))
         (let
          ((tmp%%$9 (%I i!)))
          (let
           ((tmp%%$10 (Sub (%I k1!) (%I j!))))
           (and
            (<= tmp%%$ tmp%%$9)
            (< tmp%%$9 tmp%%$10)
       )))))
       (let
        ((tmp%%$ 0))
        (let
         ((tmp%%$12 (%I i!)))
         (let
          ((tmp%%$13 (Sub (%I k2!) (%I j!))))
          (and
           (<= tmp%%$ tmp%%$12)
           (< tmp%%$12 tmp%%$13)
      )))))
      (= (vstd!seq.Seq.index.? A&. A& (vstd!seq.Seq.subrange.? A&. A& s! j! k1!) i!) (vstd!seq.Seq.index.?
        A&. A& (vstd!seq.Seq.subrange.? A&. A& s! j! k2!) i!
    ))))
    :pattern ((vstd!seq.Seq.index.? A&. A& (vstd!seq.Seq.subrange.? A&. A& s! j! k1!) i!)
     (vstd!seq.Seq.subrange.? A&. A& s! j! k2!)
    )
    :qid user_vstd__seq__lemma_seq_two_subranges_index_0
    :skolemid skolem_user_vstd__seq__lemma_seq_two_subranges_index_0
))))

;; Function-Axioms vstd::seq::Seq::add
(assert
 (forall ((A&. Dcr) (A& Type) (self! Poly) (rhs! Poly)) (!
   (=>
    (and
     (has_type self! (TYPE%vstd!seq.Seq. A&. A&))
     (has_type rhs! (TYPE%vstd!seq.Seq. A&. A&))
    )
    (has_type (vstd!seq.Seq.add.? A&. A& self! rhs!) (TYPE%vstd!seq.Seq. A&. A&))
   )
   :pattern ((vstd!seq.Seq.add.? A&. A& self! rhs!))
   :qid internal_vstd!seq.Seq.add.?_pre_post_definition
   :skolemid skolem_internal_vstd!seq.Seq.add.?_pre_post_definition
)))

;; Broadcast vstd::seq::lemma_seq_add_len
(assert
 (=>
  (fuel_bool fuel%vstd!seq.lemma_seq_add_len.)
  (forall ((A&. Dcr) (A& Type) (s1! Poly) (s2! Poly)) (!
    (=>
     (and
      (has_type s1! (TYPE%vstd!seq.Seq. A&. A&))
      (has_type s2! (TYPE%vstd!seq.Seq. A&. A&))
     )
     (=>
      (sized A&.)
      (= (vstd!seq.Seq.len.? A&. A& (vstd!seq.Seq.add.? A&. A& s1! s2!)) (nClip (Add (vstd!seq.Seq.len.?
          A&. A& s1!
         ) (vstd!seq.Seq.len.? A&. A& s2!)
    )))))
    :pattern ((vstd!seq.Seq.len.? A&. A& (vstd!seq.Seq.add.? A&. A& s1! s2!)))
    :qid user_vstd__seq__lemma_seq_add_len_0
    :skolemid skolem_user_vstd__seq__lemma_seq_add_len_0
))))

;; Broadcast vstd::seq::lemma_seq_add_index1
(assert
 (=>
  (fuel_bool fuel%vstd!seq.lemma_seq_add_index1.)
  (forall ((A&. Dcr) (A& Type) (s1! Poly) (s2! Poly) (i! Poly)) (!
    (=>
     (and
      (has_type s1! (TYPE%vstd!seq.Seq. A&. A&))
      (has_type s2! (TYPE%vstd!seq.Seq. A&. A&))
      (has_type i! INT)
     )
     (=>
      (and
       (sized A&.)
       (< (%I i!) (vstd!seq.Seq.len.? A&. A& s1!))
      )
      (= (vstd!seq.Seq.index.? A&. A& (vstd!seq.Seq.add.? A&. A& s1! s2!) i!) (vstd!seq.Seq.index.?
        A&. A& s1! i!
    ))))
    :pattern ((vstd!seq.Seq.index.? A&. A& (vstd!seq.Seq.add.? A&. A& s1! s2!) i!))
    :qid user_vstd__seq__lemma_seq_add_index1_0
    :skolemid skolem_user_vstd__seq__lemma_seq_add_index1_0
))))

;; Broadcast vstd::seq::lemma_seq_add_index2
(assert
 (=>
  (fuel_bool fuel%vstd!seq.lemma_seq_add_index2.)
  (forall ((A&. Dcr) (A& Type) (s1! Poly) (s2! Poly) (i! Poly)) (!
    (=>
     (and
      (has_type s1! (TYPE%vstd!seq.Seq. A&. A&))
      (has_type s2! (TYPE%vstd!seq.Seq. A&. A&))
      (has_type i! INT)
     )
     (=>
      (and
       (sized A&.)
       (let
        ((tmp%%$ (vstd!seq.Seq.len.? A&. A& s1!)))
        (let
         ((tmp%%$1 (%I i!)))
         (let
          ((tmp%%$2 (nClip (Add (vstd!seq.Seq.len.? A&. A& s1!) (vstd!seq.Seq.len.? A&. A& s2!)))))
          (and
           (<= tmp%%$ tmp%%$1)
           (< tmp%%$1 tmp%%$2)
      )))))
      (= (vstd!seq.Seq.index.? A&. A& (vstd!seq.Seq.add.? A&. A& s1! s2!) i!) (vstd!seq.Seq.index.?
        A&. A& s2! (I (Sub (%I i!) (vstd!seq.Seq.len.? A&. A& s1!)))
    ))))
    :pattern ((vstd!seq.Seq.index.? A&. A& (vstd!seq.Seq.add.? A&. A& s1! s2!) i!))
    :qid user_vstd__seq__lemma_seq_add_index2_0
    :skolemid skolem_user_vstd__seq__lemma_seq_add_index2_0
))))

;; Function-Axioms vstd::seq::impl&%2::spec_add
(assert
 (fuel_bool_default fuel%vstd!seq.impl&%2.spec_add.)
)
(assert
 (=>
  (fuel_bool fuel%vstd!seq.impl&%2.spec_add.)
  (forall ((A&. Dcr) (A& Type) (self! Poly) (rhs! Poly)) (!
    (= (vstd!seq.impl&%2.spec_add.? A&. A& self! rhs!) (vstd!seq.Seq.add.? A&. A& self!
      rhs!
    ))
    :pattern ((vstd!seq.impl&%2.spec_add.? A&. A& self! rhs!))
    :qid internal_vstd!seq.impl&__2.spec_add.?_definition
    :skolemid skolem_internal_vstd!seq.impl&__2.spec_add.?_definition
))))
(assert
 (forall ((A&. Dcr) (A& Type) (self! Poly) (rhs! Poly)) (!
   (=>
    (and
     (has_type self! (TYPE%vstd!seq.Seq. A&. A&))
     (has_type rhs! (TYPE%vstd!seq.Seq. A&. A&))
    )
    (has_type (vstd!seq.impl&%2.spec_add.? A&. A& self! rhs!) (TYPE%vstd!seq.Seq. A&. A&))
   )
   :pattern ((vstd!seq.impl&%2.spec_add.? A&. A& self! rhs!))
   :qid internal_vstd!seq.impl&__2.spec_add.?_pre_post_definition
   :skolemid skolem_internal_vstd!seq.impl&__2.spec_add.?_pre_post_definition
)))

;; Broadcast vstd::seq_lib::impl&%0::add_empty_left
(assert
 (=>
  (fuel_bool fuel%vstd!seq_lib.impl&%0.add_empty_left.)
  (forall ((A&. Dcr) (A& Type) (a! Poly) (b! Poly)) (!
    (=>
     (and
      (has_type a! (TYPE%vstd!seq.Seq. A&. A&))
      (has_type b! (TYPE%vstd!seq.Seq. A&. A&))
     )
     (=>
      (and
       (sized A&.)
       (= (vstd!seq.Seq.len.? A&. A& a!) 0)
      )
      (= (vstd!seq.Seq.add.? A&. A& a! b!) b!)
    ))
    :pattern ((vstd!seq.Seq.add.? A&. A& a! b!))
    :qid user_vstd__seq_lib__impl&%0__add_empty_left_0
    :skolemid skolem_user_vstd__seq_lib__impl&%0__add_empty_left_0
))))

;; Broadcast vstd::seq_lib::impl&%0::add_empty_right
(assert
 (=>
  (fuel_bool fuel%vstd!seq_lib.impl&%0.add_empty_right.)
  (forall ((A&. Dcr) (A& Type) (a! Poly) (b! Poly)) (!
    (=>
     (and
      (has_type a! (TYPE%vstd!seq.Seq. A&. A&))
      (has_type b! (TYPE%vstd!seq.Seq. A&. A&))
     )
     (=>
      (and
       (sized A&.)
       (= (vstd!seq.Seq.len.? A&. A& b!) 0)
      )
      (= (vstd!seq.Seq.add.? A&. A& a! b!) a!)
    ))
    :pattern ((vstd!seq.Seq.add.? A&. A& a! b!))
    :qid user_vstd__seq_lib__impl&%0__add_empty_right_0
    :skolemid skolem_user_vstd__seq_lib__impl&%0__add_empty_right_0
))))

;; Broadcast vstd::seq_lib::impl&%0::push_distributes_over_add
(assert
 (=>
  (fuel_bool fuel%vstd!seq_lib.impl&%0.push_distributes_over_add.)
  (forall ((A&. Dcr) (A& Type) (a! Poly) (b! Poly) (elt! Poly)) (!
    (=>
     (and
      (has_type a! (TYPE%vstd!seq.Seq. A&. A&))
      (has_type b! (TYPE%vstd!seq.Seq. A&. A&))
      (has_type elt! A&)
     )
     (=>
      (sized A&.)
      (= (vstd!seq.Seq.push.? A&. A& (vstd!seq.Seq.add.? A&. A& a! b!) elt!) (vstd!seq.Seq.add.?
        A&. A& a! (vstd!seq.Seq.push.? A&. A& b! elt!)
    ))))
    :pattern ((vstd!seq.Seq.push.? A&. A& (vstd!seq.Seq.add.? A&. A& a! b!) elt!))
    :qid user_vstd__seq_lib__impl&%0__push_distributes_over_add_0
    :skolemid skolem_user_vstd__seq_lib__impl&%0__push_distributes_over_add_0
))))

;; Function-Axioms vstd::set::impl&%0::to_iset
(assert
 (forall ((A&. Dcr) (A& Type) (self! Poly)) (!
   (=>
    (has_type self! (TYPE%vstd!set.Set. A&. A&))
    (has_type (vstd!set.impl&%0.to_iset.? A&. A& self!) (TYPE%vstd!iset.ISet. A&. A&))
   )
   :pattern ((vstd!set.impl&%0.to_iset.? A&. A& self!))
   :qid internal_vstd!set.impl&__0.to_iset.?_pre_post_definition
   :skolemid skolem_internal_vstd!set.impl&__0.to_iset.?_pre_post_definition
)))

;; Function-Axioms vstd::set::Set::contains
(assert
 (fuel_bool_default fuel%vstd!set.Set.contains.)
)
(assert
 (=>
  (fuel_bool fuel%vstd!set.Set.contains.)
  (forall ((A&. Dcr) (A& Type) (self! Poly) (a! Poly)) (!
    (= (vstd!set.Set.contains.? A&. A& self! a!) (vstd!iset.ISet.contains.? A&. A& (vstd!set.impl&%0.to_iset.?
       A&. A& self!
      ) a!
    ))
    :pattern ((vstd!set.Set.contains.? A&. A& self! a!))
    :qid internal_vstd!set.Set.contains.?_definition
    :skolemid skolem_internal_vstd!set.Set.contains.?_definition
))))

;; Function-Axioms vstd::map::impl&%0::dom
(assert
 (forall ((K&. Dcr) (K& Type) (V&. Dcr) (V& Type) (self! Poly)) (!
   (=>
    (has_type self! (TYPE%vstd!map.Map. K&. K& V&. V&))
    (has_type (vstd!map.impl&%0.dom.? K&. K& V&. V& self!) (TYPE%vstd!set.Set. K&. K&))
   )
   :pattern ((vstd!map.impl&%0.dom.? K&. K& V&. V& self!))
   :qid internal_vstd!map.impl&__0.dom.?_pre_post_definition
   :skolemid skolem_internal_vstd!map.impl&__0.dom.?_pre_post_definition
)))

;; Function-Specs vstd::map::impl&%0::index
(declare-fun req%vstd!map.impl&%0.index. (Dcr Type Dcr Type Poly Poly) Bool)
(declare-const %%global_location_label%%3 Bool)
(assert
 (forall ((K&. Dcr) (K& Type) (V&. Dcr) (V& Type) (self! Poly) (key! Poly)) (!
   (= (req%vstd!map.impl&%0.index. K&. K& V&. V& self! key!) (=>
     %%global_location_label%%3
     (vstd!iset.ISet.contains.? K&. K& (vstd!set.impl&%0.to_iset.? K&. K& (vstd!map.impl&%0.dom.?
        K&. K& V&. V& self!
       )
      ) key!
   )))
   :pattern ((req%vstd!map.impl&%0.index. K&. K& V&. V& self! key!))
   :qid internal_req__vstd!map.impl&__0.index._definition
   :skolemid skolem_internal_req__vstd!map.impl&__0.index._definition
)))

;; Function-Axioms vstd::map::impl&%0::index
(assert
 (forall ((K&. Dcr) (K& Type) (V&. Dcr) (V& Type) (self! Poly) (key! Poly)) (!
   (=>
    (and
     (has_type self! (TYPE%vstd!map.Map. K&. K& V&. V&))
     (has_type key! K&)
    )
    (has_type (vstd!map.impl&%0.index.? K&. K& V&. V& self! key!) V&)
   )
   :pattern ((vstd!map.impl&%0.index.? K&. K& V&. V& self! key!))
   :qid internal_vstd!map.impl&__0.index.?_pre_post_definition
   :skolemid skolem_internal_vstd!map.impl&__0.index.?_pre_post_definition
)))

;; Function-Specs vstd::map::impl&%0::spec_index
(declare-fun req%vstd!map.impl&%0.spec_index. (Dcr Type Dcr Type Poly Poly) Bool)
(declare-const %%global_location_label%%4 Bool)
(assert
 (forall ((K&. Dcr) (K& Type) (V&. Dcr) (V& Type) (self! Poly) (key! Poly)) (!
   (= (req%vstd!map.impl&%0.spec_index. K&. K& V&. V& self! key!) (=>
     %%global_location_label%%4
     (vstd!iset.ISet.contains.? K&. K& (vstd!set.impl&%0.to_iset.? K&. K& (vstd!map.impl&%0.dom.?
        K&. K& V&. V& self!
       )
      ) key!
   )))
   :pattern ((req%vstd!map.impl&%0.spec_index. K&. K& V&. V& self! key!))
   :qid internal_req__vstd!map.impl&__0.spec_index._definition
   :skolemid skolem_internal_req__vstd!map.impl&__0.spec_index._definition
)))

;; Function-Axioms vstd::map::impl&%0::spec_index
(assert
 (fuel_bool_default fuel%vstd!map.impl&%0.spec_index.)
)
(assert
 (=>
  (fuel_bool fuel%vstd!map.impl&%0.spec_index.)
  (forall ((K&. Dcr) (K& Type) (V&. Dcr) (V& Type) (self! Poly) (key! Poly)) (!
    (= (vstd!map.impl&%0.spec_index.? K&. K& V&. V& self! key!) (vstd!map.impl&%0.index.?
      K&. K& V&. V& self! key!
    ))
    :pattern ((vstd!map.impl&%0.spec_index.? K&. K& V&. V& self! key!))
    :qid internal_vstd!map.impl&__0.spec_index.?_definition
    :skolemid skolem_internal_vstd!map.impl&__0.spec_index.?_definition
))))
(assert
 (forall ((K&. Dcr) (K& Type) (V&. Dcr) (V& Type) (self! Poly) (key! Poly)) (!
   (=>
    (and
     (has_type self! (TYPE%vstd!map.Map. K&. K& V&. V&))
     (has_type key! K&)
    )
    (has_type (vstd!map.impl&%0.spec_index.? K&. K& V&. V& self! key!) V&)
   )
   :pattern ((vstd!map.impl&%0.spec_index.? K&. K& V&. V& self! key!))
   :qid internal_vstd!map.impl&__0.spec_index.?_pre_post_definition
   :skolemid skolem_internal_vstd!map.impl&__0.spec_index.?_pre_post_definition
)))

;; Broadcast vstd::map::axiom_map_index_decreases
(assert
 (=>
  (fuel_bool fuel%vstd!map.axiom_map_index_decreases.)
  (forall ((K&. Dcr) (K& Type) (V&. Dcr) (V& Type) (m! Poly) (key! Poly)) (!
    (=>
     (and
      (has_type m! (TYPE%vstd!map.Map. K&. K& V&. V&))
      (has_type key! K&)
     )
     (=>
      (and
       (and
        (sized K&.)
        (sized V&.)
       )
       (vstd!iset.ISet.contains.? K&. K& (vstd!set.impl&%0.to_iset.? K&. K& (vstd!map.impl&%0.dom.?
          K&. K& V&. V& m!
         )
        ) key!
      ))
      (height_lt (height (vstd!map.impl&%0.index.? K&. K& V&. V& m! key!)) (height m!))
    ))
    :pattern ((height (vstd!map.impl&%0.index.? K&. K& V&. V& m! key!)))
    :qid user_vstd__map__axiom_map_index_decreases_0
    :skolemid skolem_user_vstd__map__axiom_map_index_decreases_0
))))

;; Broadcast vstd::map::axiom_map_decreases_to_entry
(assert
 (=>
  (fuel_bool fuel%vstd!map.axiom_map_decreases_to_entry.)
  (forall ((K&. Dcr) (K& Type) (V&. Dcr) (V& Type) (m! Poly) (key! Poly)) (!
    (=>
     (and
      (has_type m! (TYPE%vstd!map.Map. K&. K& V&. V&))
      (has_type key! K&)
     )
     (=>
      (and
       (and
        (sized K&.)
        (sized V&.)
       )
       (vstd!iset.ISet.contains.? K&. K& (vstd!set.impl&%0.to_iset.? K&. K& (vstd!map.impl&%0.dom.?
          K&. K& V&. V& m!
         )
        ) key!
      ))
      (height_lt (height (Poly%tuple%2. (tuple%2./tuple%2 key! (vstd!map.impl&%0.index.? K&.
           K& V&. V& m! key!
        )))
       ) (height m!)
    )))
    :pattern ((height (Poly%tuple%2. (tuple%2./tuple%2 key! (vstd!map.impl&%0.index.? K&.
         K& V&. V& m! key!
    )))))
    :qid user_vstd__map__axiom_map_decreases_to_entry_0
    :skolemid skolem_user_vstd__map__axiom_map_decreases_to_entry_0
))))

;; Broadcast vstd::map::axiom_map_ext_equal
(assert
 (=>
  (fuel_bool fuel%vstd!map.axiom_map_ext_equal.)
  (forall ((K&. Dcr) (K& Type) (V&. Dcr) (V& Type) (m1! Poly) (m2! Poly)) (!
    (=>
     (and
      (has_type m1! (TYPE%vstd!map.Map. K&. K& V&. V&))
      (has_type m2! (TYPE%vstd!map.Map. K&. K& V&. V&))
     )
     (=>
      (and
       (sized K&.)
       (sized V&.)
      )
      (= (ext_eq false (TYPE%vstd!map.Map. K&. K& V&. V&) m1! m2!) (and
        (ext_eq false (TYPE%vstd!set.Set. K&. K&) (vstd!map.impl&%0.dom.? K&. K& V&. V& m1!)
         (vstd!map.impl&%0.dom.? K&. K& V&. V& m2!)
        )
        (forall ((k$ Poly)) (!
          (=>
           (has_type k$ K&)
           (=>
            (vstd!iset.ISet.contains.? K&. K& (vstd!set.impl&%0.to_iset.? K&. K& (vstd!map.impl&%0.dom.?
               K&. K& V&. V& m1!
              )
             ) k$
            )
            (= (vstd!map.impl&%0.index.? K&. K& V&. V& m1! k$) (vstd!map.impl&%0.index.? K&. K&
              V&. V& m2! k$
          ))))
          :pattern ((vstd!map.impl&%0.index.? K&. K& V&. V& m1! k$))
          :pattern ((vstd!map.impl&%0.index.? K&. K& V&. V& m2! k$))
          :qid user_vstd__map__axiom_map_ext_equal_0
          :skolemid skolem_user_vstd__map__axiom_map_ext_equal_0
    ))))))
    :pattern ((ext_eq false (TYPE%vstd!map.Map. K&. K& V&. V&) m1! m2!))
    :qid user_vstd__map__axiom_map_ext_equal_1
    :skolemid skolem_user_vstd__map__axiom_map_ext_equal_1
))))

;; Broadcast vstd::map::axiom_map_ext_equal_deep
(assert
 (=>
  (fuel_bool fuel%vstd!map.axiom_map_ext_equal_deep.)
  (forall ((K&. Dcr) (K& Type) (V&. Dcr) (V& Type) (m1! Poly) (m2! Poly)) (!
    (=>
     (and
      (has_type m1! (TYPE%vstd!map.Map. K&. K& V&. V&))
      (has_type m2! (TYPE%vstd!map.Map. K&. K& V&. V&))
     )
     (=>
      (and
       (sized K&.)
       (sized V&.)
      )
      (= (ext_eq true (TYPE%vstd!map.Map. K&. K& V&. V&) m1! m2!) (and
        (ext_eq true (TYPE%vstd!set.Set. K&. K&) (vstd!map.impl&%0.dom.? K&. K& V&. V& m1!)
         (vstd!map.impl&%0.dom.? K&. K& V&. V& m2!)
        )
        (forall ((k$ Poly)) (!
          (=>
           (has_type k$ K&)
           (=>
            (vstd!iset.ISet.contains.? K&. K& (vstd!set.impl&%0.to_iset.? K&. K& (vstd!map.impl&%0.dom.?
               K&. K& V&. V& m1!
              )
             ) k$
            )
            (ext_eq true V& (vstd!map.impl&%0.index.? K&. K& V&. V& m1! k$) (vstd!map.impl&%0.index.?
              K&. K& V&. V& m2! k$
          ))))
          :pattern ((vstd!map.impl&%0.index.? K&. K& V&. V& m1! k$))
          :pattern ((vstd!map.impl&%0.index.? K&. K& V&. V& m2! k$))
          :qid user_vstd__map__axiom_map_ext_equal_deep_0
          :skolemid skolem_user_vstd__map__axiom_map_ext_equal_deep_0
    ))))))
    :pattern ((ext_eq true (TYPE%vstd!map.Map. K&. K& V&. V&) m1! m2!))
    :qid user_vstd__map__axiom_map_ext_equal_deep_1
    :skolemid skolem_user_vstd__map__axiom_map_ext_equal_deep_1
))))

;; Broadcast vstd::set::axiom_set_ext_equal
(assert
 (=>
  (fuel_bool fuel%vstd!set.axiom_set_ext_equal.)
  (forall ((A&. Dcr) (A& Type) (s1! Poly) (s2! Poly)) (!
    (=>
     (and
      (has_type s1! (TYPE%vstd!set.Set. A&. A&))
      (has_type s2! (TYPE%vstd!set.Set. A&. A&))
     )
     (=>
      (sized A&.)
      (= (ext_eq false (TYPE%vstd!set.Set. A&. A&) s1! s2!) (forall ((a$ Poly)) (!
         (=>
          (has_type a$ A&)
          (= (vstd!iset.ISet.contains.? A&. A& (vstd!set.impl&%0.to_iset.? A&. A& s1!) a$) (
            vstd!iset.ISet.contains.? A&. A& (vstd!set.impl&%0.to_iset.? A&. A& s2!) a$
         )))
         :pattern ((vstd!iset.ISet.contains.? A&. A& (vstd!set.impl&%0.to_iset.? A&. A& s1!)
           a$
         ))
         :pattern ((vstd!iset.ISet.contains.? A&. A& (vstd!set.impl&%0.to_iset.? A&. A& s2!)
           a$
         ))
         :qid user_vstd__set__axiom_set_ext_equal_0
         :skolemid skolem_user_vstd__set__axiom_set_ext_equal_0
    )))))
    :pattern ((ext_eq false (TYPE%vstd!set.Set. A&. A&) s1! s2!))
    :qid user_vstd__set__axiom_set_ext_equal_1
    :skolemid skolem_user_vstd__set__axiom_set_ext_equal_1
))))

;; Broadcast vstd::set::axiom_set_ext_equal_deep
(assert
 (=>
  (fuel_bool fuel%vstd!set.axiom_set_ext_equal_deep.)
  (forall ((A&. Dcr) (A& Type) (s1! Poly) (s2! Poly)) (!
    (=>
     (and
      (has_type s1! (TYPE%vstd!set.Set. A&. A&))
      (has_type s2! (TYPE%vstd!set.Set. A&. A&))
     )
     (=>
      (sized A&.)
      (= (ext_eq true (TYPE%vstd!set.Set. A&. A&) s1! s2!) (ext_eq false (TYPE%vstd!set.Set.
         A&. A&
        ) s1! s2!
    ))))
    :pattern ((ext_eq true (TYPE%vstd!set.Set. A&. A&) s1! s2!))
    :qid user_vstd__set__axiom_set_ext_equal_deep_0
    :skolemid skolem_user_vstd__set__axiom_set_ext_equal_deep_0
))))

;; Broadcast vstd::set::axiom_set_decreases_to_member
(assert
 (=>
  (fuel_bool fuel%vstd!set.axiom_set_decreases_to_member.)
  (forall ((A&. Dcr) (A& Type) (s! Poly) (a! Poly)) (!
    (=>
     (and
      (has_type s! (TYPE%vstd!set.Set. A&. A&))
      (has_type a! A&)
     )
     (=>
      (and
       (sized A&.)
       (vstd!iset.ISet.contains.? A&. A& (vstd!set.impl&%0.to_iset.? A&. A& s!) a!)
      )
      (height_lt (height a!) (height s!))
    ))
    :pattern ((vstd!iset.ISet.contains.? A&. A& (vstd!set.impl&%0.to_iset.? A&. A& s!)
      a!
     ) (height a!)
    )
    :qid user_vstd__set__axiom_set_decreases_to_member_0
    :skolemid skolem_user_vstd__set__axiom_set_decreases_to_member_0
))))

;; Broadcast vstd::iset::lemma_iset_ext_equal
(assert
 (=>
  (fuel_bool fuel%vstd!iset.lemma_iset_ext_equal.)
  (forall ((A&. Dcr) (A& Type) (s1! Poly) (s2! Poly)) (!
    (=>
     (and
      (has_type s1! (TYPE%vstd!iset.ISet. A&. A&))
      (has_type s2! (TYPE%vstd!iset.ISet. A&. A&))
     )
     (=>
      (sized A&.)
      (= (ext_eq false (TYPE%vstd!iset.ISet. A&. A&) s1! s2!) (forall ((a$ Poly)) (!
         (=>
          (has_type a$ A&)
          (= (vstd!iset.ISet.contains.? A&. A& s1! a$) (vstd!iset.ISet.contains.? A&. A& s2!
            a$
         )))
         :pattern ((vstd!iset.ISet.contains.? A&. A& s1! a$))
         :pattern ((vstd!iset.ISet.contains.? A&. A& s2! a$))
         :qid user_vstd__iset__lemma_iset_ext_equal_0
         :skolemid skolem_user_vstd__iset__lemma_iset_ext_equal_0
    )))))
    :pattern ((ext_eq false (TYPE%vstd!iset.ISet. A&. A&) s1! s2!))
    :qid user_vstd__iset__lemma_iset_ext_equal_1
    :skolemid skolem_user_vstd__iset__lemma_iset_ext_equal_1
))))

;; Broadcast vstd::iset::lemma_iset_ext_equal_deep
(assert
 (=>
  (fuel_bool fuel%vstd!iset.lemma_iset_ext_equal_deep.)
  (forall ((A&. Dcr) (A& Type) (s1! Poly) (s2! Poly)) (!
    (=>
     (and
      (has_type s1! (TYPE%vstd!iset.ISet. A&. A&))
      (has_type s2! (TYPE%vstd!iset.ISet. A&. A&))
     )
     (=>
      (sized A&.)
      (= (ext_eq true (TYPE%vstd!iset.ISet. A&. A&) s1! s2!) (ext_eq false (TYPE%vstd!iset.ISet.
         A&. A&
        ) s1! s2!
    ))))
    :pattern ((ext_eq true (TYPE%vstd!iset.ISet. A&. A&) s1! s2!))
    :qid user_vstd__iset__lemma_iset_ext_equal_deep_0
    :skolemid skolem_user_vstd__iset__lemma_iset_ext_equal_deep_0
))))

;; Trait-Impl-Axiom
(assert
 (forall ((A&. Dcr) (A& Type) (F&. Dcr) (F& Type)) (!
   (=>
    (and
     (sized A&.)
     (tr_bound%core!marker.Tuple. A&. A&)
     (tr_bound%core!ops.function.FnMut. F&. F& A&. A&)
    )
    (tr_bound%core!ops.function.FnOnce. $ (MUTREF F&. F&) A&. A&)
   )
   :pattern ((tr_bound%core!ops.function.FnOnce. $ (MUTREF F&. F&) A&. A&))
   :qid internal_core__ops__function__impls__impl&__4_trait_impl_definition
   :skolemid skolem_internal_core__ops__function__impls__impl&__4_trait_impl_definition
)))

;; Broadcast vstd::function::axiom_fn_mut_call_requires
(assert
 (=>
  (fuel_bool fuel%vstd!function.axiom_fn_mut_call_requires.)
  (forall ((Args&. Dcr) (Args& Type) (F&. Dcr) (F& Type) (f! Poly) (args! Poly)) (!
    (=>
     (and
      (has_type f! (MUTREF F&. F&))
      (has_type args! Args&)
     )
     (=>
      (and
       (and
        (and
         (and
          (sized Args&.)
          (sized F&.)
         )
         (tr_bound%core!marker.Tuple. Args&. Args&)
        )
        (tr_bound%core!ops.function.FnMut. F&. F& Args&. Args&)
       )
       (closure_req F& Args&. Args& (mut_ref_current% f!) args!)
      )
      (closure_req (MUTREF F&. F&) Args&. Args& f! args!)
    ))
    :pattern ((closure_req (MUTREF F&. F&) Args&. Args& f! args!))
    :qid user_vstd__function__axiom_fn_mut_call_requires_0
    :skolemid skolem_user_vstd__function__axiom_fn_mut_call_requires_0
))))

;; Broadcast vstd::function::axiom_fn_mut_call_ensures
(assert
 (=>
  (fuel_bool fuel%vstd!function.axiom_fn_mut_call_ensures.)
  (forall ((Args&. Dcr) (Args& Type) (F&. Dcr) (F& Type) (f! Poly) (args! Poly) (output!
     Poly
    )
   ) (!
    (=>
     (and
      (has_type f! (MUTREF F&. F&))
      (has_type args! Args&)
      (has_type output! (proj%core!ops.function.FnOnce./Output F&. F& Args&. Args&))
     )
     (=>
      (and
       (and
        (and
         (and
          (sized Args&.)
          (sized F&.)
         )
         (tr_bound%core!marker.Tuple. Args&. Args&)
        )
        (tr_bound%core!ops.function.FnMut. F&. F& Args&. Args&)
       )
       (closure_ens (MUTREF F&. F&) Args&. Args& f! args! output!)
      )
      (and
       (closure_ens F& Args&. Args& (mut_ref_current% f!) args! output!)
       (= (mut_ref_current% f!) (mut_ref_future% f!))
    )))
    :pattern ((closure_ens (MUTREF F&. F&) Args&. Args& f! args! output!))
    :qid user_vstd__function__axiom_fn_mut_call_ensures_0
    :skolemid skolem_user_vstd__function__axiom_fn_mut_call_ensures_0
))))

;; Function-Axioms vstd::slice::spec_slice_len
(assert
 (forall ((T&. Dcr) (T& Type) (slice! Poly)) (!
   (=>
    (has_type slice! (SLICE T&. T&))
    (uInv SZ (vstd!slice.spec_slice_len.? T&. T& slice!))
   )
   :pattern ((vstd!slice.spec_slice_len.? T&. T& slice!))
   :qid internal_vstd!slice.spec_slice_len.?_pre_post_definition
   :skolemid skolem_internal_vstd!slice.spec_slice_len.?_pre_post_definition
)))

;; Function-Axioms vstd::view::View::view
(assert
 (forall ((Self%&. Dcr) (Self%& Type) (self! Poly)) (!
   (=>
    (has_type self! Self%&)
    (has_type (vstd!view.View.view.? Self%&. Self%& self!) (proj%vstd!view.View./V Self%&.
      Self%&
   )))
   :pattern ((vstd!view.View.view.? Self%&. Self%& self!))
   :qid internal_vstd!view.View.view.?_pre_post_definition
   :skolemid skolem_internal_vstd!view.View.view.?_pre_post_definition
)))

;; Trait-Impl-Axiom
(assert
 (forall ((T&. Dcr) (T& Type)) (!
   (=>
    (sized T&.)
    (tr_bound%vstd!view.View. $slice (SLICE T&. T&))
   )
   :pattern ((tr_bound%vstd!view.View. $slice (SLICE T&. T&)))
   :qid internal_vstd__slice__impl&__0_trait_impl_definition
   :skolemid skolem_internal_vstd__slice__impl&__0_trait_impl_definition
)))

;; Broadcast vstd::slice::axiom_spec_len
(assert
 (=>
  (fuel_bool fuel%vstd!slice.axiom_spec_len.)
  (forall ((T&. Dcr) (T& Type) (slice! Poly)) (!
    (=>
     (has_type slice! (SLICE T&. T&))
     (=>
      (sized T&.)
      (= (vstd!slice.spec_slice_len.? T&. T& slice!) (vstd!seq.Seq.len.? T&. T& (vstd!view.View.view.?
         $slice (SLICE T&. T&) slice!
    )))))
    :pattern ((vstd!slice.spec_slice_len.? T&. T& slice!))
    :qid user_vstd__slice__axiom_spec_len_0
    :skolemid skolem_user_vstd__slice__axiom_spec_len_0
))))

;; Function-Axioms vstd::slice::len%returns_clause_autospec
(assert
 (fuel_bool_default fuel%vstd!slice.len%returns_clause_autospec.)
)
(assert
 (=>
  (fuel_bool fuel%vstd!slice.len%returns_clause_autospec.)
  (forall ((T&. Dcr) (T& Type) (slice! Poly)) (!
    (= (vstd!slice.len%returns_clause_autospec.? T&. T& slice!) (vstd!slice.spec_slice_len.?
      T&. T& slice!
    ))
    :pattern ((vstd!slice.len%returns_clause_autospec.? T&. T& slice!))
    :qid internal_vstd!slice.len__returns_clause_autospec.?_definition
    :skolemid skolem_internal_vstd!slice.len__returns_clause_autospec.?_definition
))))
(assert
 (forall ((T&. Dcr) (T& Type) (slice! Poly)) (!
   (=>
    (has_type slice! (SLICE T&. T&))
    (uInv SZ (vstd!slice.len%returns_clause_autospec.? T&. T& slice!))
   )
   :pattern ((vstd!slice.len%returns_clause_autospec.? T&. T& slice!))
   :qid internal_vstd!slice.len__returns_clause_autospec.?_pre_post_definition
   :skolemid skolem_internal_vstd!slice.len__returns_clause_autospec.?_pre_post_definition
)))

;; Function-Specs vstd::slice::SliceAdditionalSpecFns::spec_index
(declare-fun req%vstd!slice.SliceAdditionalSpecFns.spec_index. (Dcr Type Dcr Type Poly
  Poly
 ) Bool
)
(declare-const %%global_location_label%%5 Bool)
(assert
 (forall ((Self%&. Dcr) (Self%& Type) (T&. Dcr) (T& Type) (self! Poly) (i! Poly)) (
   !
   (= (req%vstd!slice.SliceAdditionalSpecFns.spec_index. Self%&. Self%& T&. T& self! i!)
    (=>
     %%global_location_label%%5
     (let
      ((tmp%%$ 0))
      (let
       ((tmp%%$1 (%I i!)))
       (let
        ((tmp%%$2 (vstd!seq.Seq.len.? T&. T& (vstd!view.View.view.? Self%&. Self%& self!))))
        (and
         (<= tmp%%$ tmp%%$1)
         (< tmp%%$1 tmp%%$2)
   ))))))
   :pattern ((req%vstd!slice.SliceAdditionalSpecFns.spec_index. Self%&. Self%& T&. T&
     self! i!
   ))
   :qid internal_req__vstd!slice.SliceAdditionalSpecFns.spec_index._definition
   :skolemid skolem_internal_req__vstd!slice.SliceAdditionalSpecFns.spec_index._definition
)))

;; Function-Axioms vstd::slice::SliceAdditionalSpecFns::spec_index
(assert
 (forall ((Self%&. Dcr) (Self%& Type) (T&. Dcr) (T& Type) (self! Poly) (i! Poly)) (
   !
   (=>
    (and
     (has_type self! Self%&)
     (has_type i! INT)
    )
    (has_type (vstd!slice.SliceAdditionalSpecFns.spec_index.? Self%&. Self%& T&. T& self!
      i!
     ) T&
   ))
   :pattern ((vstd!slice.SliceAdditionalSpecFns.spec_index.? Self%&. Self%& T&. T& self!
     i!
   ))
   :qid internal_vstd!slice.SliceAdditionalSpecFns.spec_index.?_pre_post_definition
   :skolemid skolem_internal_vstd!slice.SliceAdditionalSpecFns.spec_index.?_pre_post_definition
)))

;; Function-Axioms vstd::slice::impl&%2::spec_index
(assert
 (fuel_bool_default fuel%vstd!slice.impl&%2.spec_index.)
)
(assert
 (=>
  (fuel_bool fuel%vstd!slice.impl&%2.spec_index.)
  (forall ((T&. Dcr) (T& Type) (self! Poly) (i! Poly)) (!
    (=>
     (sized T&.)
     (= (vstd!slice.SliceAdditionalSpecFns.spec_index.? $slice (SLICE T&. T&) T&. T& self!
       i!
      ) (vstd!seq.Seq.index.? T&. T& (vstd!view.View.view.? $slice (SLICE T&. T&) self!)
       i!
    )))
    :pattern ((vstd!slice.SliceAdditionalSpecFns.spec_index.? $slice (SLICE T&. T&) T&.
      T& self! i!
    ))
    :qid internal_vstd!slice.impl&__2.spec_index.?_definition
    :skolemid skolem_internal_vstd!slice.impl&__2.spec_index.?_definition
))))

;; Trait-Impl-Axiom
(assert
 (forall ((T&. Dcr) (T& Type)) (!
   (=>
    (sized T&.)
    (tr_bound%vstd!slice.SliceAdditionalSpecFns. $slice (SLICE T&. T&) T&. T&)
   )
   :pattern ((tr_bound%vstd!slice.SliceAdditionalSpecFns. $slice (SLICE T&. T&) T&. T&))
   :qid internal_vstd__slice__impl&__2_trait_impl_definition
   :skolemid skolem_internal_vstd__slice__impl&__2_trait_impl_definition
)))

;; Broadcast vstd::slice::axiom_slice_ext_equal
(assert
 (=>
  (fuel_bool fuel%vstd!slice.axiom_slice_ext_equal.)
  (forall ((T&. Dcr) (T& Type) (a1! Poly) (a2! Poly)) (!
    (=>
     (and
      (has_type a1! (SLICE T&. T&))
      (has_type a2! (SLICE T&. T&))
     )
     (=>
      (sized T&.)
      (= (ext_eq false (SLICE T&. T&) a1! a2!) (and
        (= (vstd!slice.len%returns_clause_autospec.? T&. T& a1!) (vstd!slice.len%returns_clause_autospec.?
          T&. T& a2!
        ))
        (forall ((i$ Poly)) (!
          (=>
           (has_type i$ INT)
           (=>
            (let
             ((tmp%%$ 0))
             (let
              ((tmp%%$1 (%I i$)))
              (let
               ((tmp%%$2 (vstd!slice.len%returns_clause_autospec.? T&. T& a1!)))
               (and
                (<= tmp%%$ tmp%%$1)
                (< tmp%%$1 tmp%%$2)
            ))))
            (= (vstd!seq.Seq.index.? T&. T& (vstd!view.View.view.? $slice (SLICE T&. T&) a1!) i$)
             (vstd!seq.Seq.index.? T&. T& (vstd!view.View.view.? $slice (SLICE T&. T&) a2!) i$)
          )))
          :pattern ((vstd!seq.Seq.index.? T&. T& (vstd!view.View.view.? $slice (SLICE T&. T&)
             a1!
            ) i$
          ))
          :pattern ((vstd!seq.Seq.index.? T&. T& (vstd!view.View.view.? $slice (SLICE T&. T&)
             a2!
            ) i$
          ))
          :qid user_vstd__slice__axiom_slice_ext_equal_0
          :skolemid skolem_user_vstd__slice__axiom_slice_ext_equal_0
    ))))))
    :pattern ((ext_eq false (SLICE T&. T&) a1! a2!))
    :qid user_vstd__slice__axiom_slice_ext_equal_1
    :skolemid skolem_user_vstd__slice__axiom_slice_ext_equal_1
))))

;; Broadcast vstd::slice::axiom_slice_has_resolved
(assert
 (=>
  (fuel_bool fuel%vstd!slice.axiom_slice_has_resolved.)
  (forall ((T&. Dcr) (T& Type) (slice! Poly) (i! Poly)) (!
    (=>
     (and
      (has_type slice! (SLICE T&. T&))
      (has_type i! INT)
     )
     (=>
      (sized T&.)
      (=>
       (let
        ((tmp%%$ 0))
        (let
         ((tmp%%$1 (%I i!)))
         (let
          ((tmp%%$2 (vstd!slice.spec_slice_len.? T&. T& slice!)))
          (and
           (<= tmp%%$ tmp%%$1)
           (< tmp%%$1 tmp%%$2)
       ))))
       (=>
        (has_resolved $slice (SLICE T&. T&) slice!)
        (has_resolved T&. T& (vstd!seq.Seq.index.? T&. T& (vstd!view.View.view.? $slice (SLICE
            T&. T&
           ) slice!
          ) i!
    ))))))
    :pattern ((has_resolved $slice (SLICE T&. T&) slice!) (vstd!seq.Seq.index.? T&. T&
      (vstd!view.View.view.? $slice (SLICE T&. T&) slice!) i!
    ))
    :qid user_vstd__slice__axiom_slice_has_resolved_0
    :skolemid skolem_user_vstd__slice__axiom_slice_has_resolved_0
))))

;; Broadcast vstd::slice::axiom_slice_decreases_to_seq
(assert
 (=>
  (fuel_bool fuel%vstd!slice.axiom_slice_decreases_to_seq.)
  (forall ((T&. Dcr) (T& Type) (s! Poly)) (!
    (=>
     (has_type s! (SLICE T&. T&))
     (=>
      (sized T&.)
      (height_lt (height (vstd!view.View.view.? $slice (SLICE T&. T&) s!)) (height s!))
    ))
    :pattern ((height (vstd!view.View.view.? $slice (SLICE T&. T&) s!)))
    :qid user_vstd__slice__axiom_slice_decreases_to_seq_0
    :skolemid skolem_user_vstd__slice__axiom_slice_decreases_to_seq_0
))))

;; Broadcast vstd::slice::lemma_slice_index_decreases
(assert
 (=>
  (fuel_bool fuel%vstd!slice.lemma_slice_index_decreases.)
  (forall ((T&. Dcr) (T& Type) (s! Poly) (i! Poly)) (!
    (=>
     (and
      (has_type s! (SLICE T&. T&))
      (has_type i! INT)
     )
     (=>
      (and
       (sized T&.)
       (let
        ((tmp%%$ 0))
        (let
         ((tmp%%$1 (%I i!)))
         (let
          ((tmp%%$2 (vstd!seq.Seq.len.? T&. T& (vstd!view.View.view.? $slice (SLICE T&. T&) s!))))
          (and
           (<= tmp%%$ tmp%%$1)
           (< tmp%%$1 tmp%%$2)
      )))))
      (height_lt (height (vstd!seq.Seq.index.? T&. T& (vstd!view.View.view.? $slice (SLICE T&.
           T&
          ) s!
         ) i!
        )
       ) (height s!)
    )))
    :pattern ((height (vstd!seq.Seq.index.? T&. T& (vstd!view.View.view.? $slice (SLICE T&.
         T&
        ) s!
       ) i!
    )))
    :qid user_vstd__slice__lemma_slice_index_decreases_0
    :skolemid skolem_user_vstd__slice__lemma_slice_index_decreases_0
))))

;; Function-Axioms vstd::array::array_view
(assert
 (fuel_bool_default fuel%vstd!array.array_view.)
)
(declare-fun %%lambda%%0 (Dcr Type Dcr Type %%Function%%) %%Function%%)
(assert
 (forall ((%%hole%%0 Dcr) (%%hole%%1 Type) (%%hole%%2 Dcr) (%%hole%%3 Type) (%%hole%%4
    %%Function%%
   ) (i$ Poly)
  ) (!
   (= (%%apply%%0 (%%lambda%%0 %%hole%%0 %%hole%%1 %%hole%%2 %%hole%%3 %%hole%%4) i$)
    (array_index %%hole%%0 %%hole%%1 %%hole%%2 %%hole%%3 %%hole%%4 i$)
   )
   :pattern ((%%apply%%0 (%%lambda%%0 %%hole%%0 %%hole%%1 %%hole%%2 %%hole%%3 %%hole%%4)
     i$
)))))
(assert
 (=>
  (fuel_bool fuel%vstd!array.array_view.)
  (forall ((T&. Dcr) (T& Type) (N&. Dcr) (N& Type) (a! Poly)) (!
    (= (vstd!array.array_view.? T&. T& N&. N& a!) (vstd!seq.Seq.new.? T&. T& (I (const_int
        N&
       )
      ) (Poly%fun%1. (mk_fun (%%lambda%%0 T&. T& N&. N& (%Poly%array%. a!))))
    ))
    :pattern ((vstd!array.array_view.? T&. T& N&. N& a!))
    :qid internal_vstd!array.array_view.?_definition
    :skolemid skolem_internal_vstd!array.array_view.?_definition
))))
(assert
 (forall ((T&. Dcr) (T& Type) (N&. Dcr) (N& Type) (a! Poly)) (!
   (=>
    (has_type a! (ARRAY T&. T& N&. N&))
    (has_type (vstd!array.array_view.? T&. T& N&. N& a!) (TYPE%vstd!seq.Seq. T&. T&))
   )
   :pattern ((vstd!array.array_view.? T&. T& N&. N& a!))
   :qid internal_vstd!array.array_view.?_pre_post_definition
   :skolemid skolem_internal_vstd!array.array_view.?_pre_post_definition
)))

;; Function-Axioms vstd::array::impl&%0::view
(assert
 (fuel_bool_default fuel%vstd!array.impl&%0.view.)
)
(assert
 (=>
  (fuel_bool fuel%vstd!array.impl&%0.view.)
  (forall ((T&. Dcr) (T& Type) (N&. Dcr) (N& Type) (self! Poly)) (!
    (=>
     (and
      (sized T&.)
      (uInv SZ (const_int N&))
     )
     (= (vstd!view.View.view.? $ (ARRAY T&. T& N&. N&) self!) (vstd!array.array_view.? T&.
       T& N&. N& self!
    )))
    :pattern ((vstd!view.View.view.? $ (ARRAY T&. T& N&. N&) self!))
    :qid internal_vstd!array.impl&__0.view.?_definition
    :skolemid skolem_internal_vstd!array.impl&__0.view.?_definition
))))

;; Trait-Impl-Axiom
(assert
 (forall ((T&. Dcr) (T& Type) (N&. Dcr) (N& Type)) (!
   (=>
    (and
     (sized T&.)
     (uInv SZ (const_int N&))
    )
    (tr_bound%vstd!view.View. $ (ARRAY T&. T& N&. N&))
   )
   :pattern ((tr_bound%vstd!view.View. $ (ARRAY T&. T& N&. N&)))
   :qid internal_vstd__array__impl&__0_trait_impl_definition
   :skolemid skolem_internal_vstd__array__impl&__0_trait_impl_definition
)))

;; Broadcast vstd::array::array_len_matches_n
(assert
 (=>
  (fuel_bool fuel%vstd!array.array_len_matches_n.)
  (forall ((T&. Dcr) (T& Type) (N&. Dcr) (N& Type) (ar! Poly)) (!
    (=>
     (has_type ar! (ARRAY T&. T& N&. N&))
     (=>
      (and
       (sized T&.)
       (uInv SZ (const_int N&))
      )
      (= (vstd!seq.Seq.len.? T&. T& (vstd!view.View.view.? $ (ARRAY T&. T& N&. N&) ar!))
       (const_int N&)
    )))
    :pattern ((vstd!seq.Seq.len.? T&. T& (vstd!view.View.view.? $ (ARRAY T&. T& N&. N&)
       ar!
    )))
    :qid user_vstd__array__array_len_matches_n_0
    :skolemid skolem_user_vstd__array__array_len_matches_n_0
))))

;; Function-Specs vstd::array::ArrayAdditionalSpecFns::spec_index
(declare-fun req%vstd!array.ArrayAdditionalSpecFns.spec_index. (Dcr Type Dcr Type Poly
  Poly
 ) Bool
)
(declare-const %%global_location_label%%6 Bool)
(assert
 (forall ((Self%&. Dcr) (Self%& Type) (T&. Dcr) (T& Type) (self! Poly) (i! Poly)) (
   !
   (= (req%vstd!array.ArrayAdditionalSpecFns.spec_index. Self%&. Self%& T&. T& self! i!)
    (=>
     %%global_location_label%%6
     (let
      ((tmp%%$ 0))
      (let
       ((tmp%%$1 (%I i!)))
       (let
        ((tmp%%$2 (vstd!seq.Seq.len.? T&. T& (vstd!view.View.view.? Self%&. Self%& self!))))
        (and
         (<= tmp%%$ tmp%%$1)
         (< tmp%%$1 tmp%%$2)
   ))))))
   :pattern ((req%vstd!array.ArrayAdditionalSpecFns.spec_index. Self%&. Self%& T&. T&
     self! i!
   ))
   :qid internal_req__vstd!array.ArrayAdditionalSpecFns.spec_index._definition
   :skolemid skolem_internal_req__vstd!array.ArrayAdditionalSpecFns.spec_index._definition
)))

;; Function-Axioms vstd::array::ArrayAdditionalSpecFns::spec_index
(assert
 (forall ((Self%&. Dcr) (Self%& Type) (T&. Dcr) (T& Type) (self! Poly) (i! Poly)) (
   !
   (=>
    (and
     (has_type self! Self%&)
     (has_type i! INT)
    )
    (has_type (vstd!array.ArrayAdditionalSpecFns.spec_index.? Self%&. Self%& T&. T& self!
      i!
     ) T&
   ))
   :pattern ((vstd!array.ArrayAdditionalSpecFns.spec_index.? Self%&. Self%& T&. T& self!
     i!
   ))
   :qid internal_vstd!array.ArrayAdditionalSpecFns.spec_index.?_pre_post_definition
   :skolemid skolem_internal_vstd!array.ArrayAdditionalSpecFns.spec_index.?_pre_post_definition
)))

;; Function-Axioms vstd::array::impl&%2::spec_index
(assert
 (fuel_bool_default fuel%vstd!array.impl&%2.spec_index.)
)
(assert
 (=>
  (fuel_bool fuel%vstd!array.impl&%2.spec_index.)
  (forall ((T&. Dcr) (T& Type) (N&. Dcr) (N& Type) (self! Poly) (i! Poly)) (!
    (=>
     (and
      (sized T&.)
      (uInv SZ (const_int N&))
     )
     (= (vstd!array.ArrayAdditionalSpecFns.spec_index.? $ (ARRAY T&. T& N&. N&) T&. T& self!
       i!
      ) (vstd!seq.Seq.index.? T&. T& (vstd!view.View.view.? $ (ARRAY T&. T& N&. N&) self!)
       i!
    )))
    :pattern ((vstd!array.ArrayAdditionalSpecFns.spec_index.? $ (ARRAY T&. T& N&. N&) T&.
      T& self! i!
    ))
    :qid internal_vstd!array.impl&__2.spec_index.?_definition
    :skolemid skolem_internal_vstd!array.impl&__2.spec_index.?_definition
))))

;; Trait-Impl-Axiom
(assert
 (forall ((T&. Dcr) (T& Type) (N&. Dcr) (N& Type)) (!
   (=>
    (and
     (sized T&.)
     (uInv SZ (const_int N&))
    )
    (tr_bound%vstd!array.ArrayAdditionalSpecFns. $ (ARRAY T&. T& N&. N&) T&. T&)
   )
   :pattern ((tr_bound%vstd!array.ArrayAdditionalSpecFns. $ (ARRAY T&. T& N&. N&) T&.
     T&
   ))
   :qid internal_vstd__array__impl&__2_trait_impl_definition
   :skolemid skolem_internal_vstd__array__impl&__2_trait_impl_definition
)))

;; Broadcast vstd::array::lemma_array_index
(assert
 (=>
  (fuel_bool fuel%vstd!array.lemma_array_index.)
  (forall ((T&. Dcr) (T& Type) (N&. Dcr) (N& Type) (a! Poly) (i! Poly)) (!
    (=>
     (and
      (has_type a! (ARRAY T&. T& N&. N&))
      (has_type i! INT)
     )
     (=>
      (and
       (and
        (sized T&.)
        (uInv SZ (const_int N&))
       )
       (let
        ((tmp%%$ 0))
        (let
         ((tmp%%$1 (%I i!)))
         (let
          ((tmp%%$2 (const_int N&)))
          (and
           (<= tmp%%$ tmp%%$1)
           (< tmp%%$1 tmp%%$2)
      )))))
      (= (vstd!seq.Seq.index.? T&. T& (vstd!view.View.view.? $ (ARRAY T&. T& N&. N&) a!)
        i!
       ) (vstd!seq.Seq.index.? T&. T& (vstd!array.array_view.? T&. T& N&. N& a!) i!)
    )))
    :pattern ((array_index T&. T& N&. N& (%Poly%array%. a!) i!))
    :qid user_vstd__array__lemma_array_index_0
    :skolemid skolem_user_vstd__array__lemma_array_index_0
))))

;; Function-Axioms vstd::array::spec_array_as_slice
(assert
 (forall ((T&. Dcr) (T& Type) (N&. Dcr) (N& Type) (ar! Poly)) (!
   (=>
    (has_type ar! (ARRAY T&. T& N&. N&))
    (has_type (vstd!array.spec_array_as_slice.? T&. T& N&. N& ar!) (SLICE T&. T&))
   )
   :pattern ((vstd!array.spec_array_as_slice.? T&. T& N&. N& ar!))
   :qid internal_vstd!array.spec_array_as_slice.?_pre_post_definition
   :skolemid skolem_internal_vstd!array.spec_array_as_slice.?_pre_post_definition
)))

;; Broadcast vstd::array::axiom_spec_array_as_slice
(assert
 (=>
  (fuel_bool fuel%vstd!array.axiom_spec_array_as_slice.)
  (forall ((T&. Dcr) (T& Type) (N&. Dcr) (N& Type) (ar! Poly)) (!
    (=>
     (has_type ar! (ARRAY T&. T& N&. N&))
     (=>
      (and
       (sized T&.)
       (uInv SZ (const_int N&))
      )
      (= (vstd!view.View.view.? $slice (SLICE T&. T&) (vstd!array.spec_array_as_slice.? T&.
         T& N&. N& ar!
        )
       ) (vstd!view.View.view.? $ (ARRAY T&. T& N&. N&) ar!)
    )))
    :pattern ((vstd!array.spec_array_as_slice.? T&. T& N&. N& ar!))
    :qid user_vstd__array__axiom_spec_array_as_slice_0
    :skolemid skolem_user_vstd__array__axiom_spec_array_as_slice_0
))))

;; Broadcast vstd::array::axiom_array_ext_equal
(assert
 (=>
  (fuel_bool fuel%vstd!array.axiom_array_ext_equal.)
  (forall ((T&. Dcr) (T& Type) (N&. Dcr) (N& Type) (a1! Poly) (a2! Poly)) (!
    (=>
     (and
      (has_type a1! (ARRAY T&. T& N&. N&))
      (has_type a2! (ARRAY T&. T& N&. N&))
     )
     (=>
      (and
       (sized T&.)
       (uInv SZ (const_int N&))
      )
      (= (ext_eq false (ARRAY T&. T& N&. N&) a1! a2!) (forall ((i$ Poly)) (!
         (=>
          (has_type i$ INT)
          (=>
           (let
            ((tmp%%$ 0))
            (let
             ((tmp%%$1 (%I i$)))
             (let
              ((tmp%%$2 (const_int N&)))
              (and
               (<= tmp%%$ tmp%%$1)
               (< tmp%%$1 tmp%%$2)
           ))))
           (= (vstd!seq.Seq.index.? T&. T& (vstd!view.View.view.? $ (ARRAY T&. T& N&. N&) a1!)
             i$
            ) (vstd!seq.Seq.index.? T&. T& (vstd!view.View.view.? $ (ARRAY T&. T& N&. N&) a2!)
             i$
         ))))
         :pattern ((vstd!seq.Seq.index.? T&. T& (vstd!view.View.view.? $ (ARRAY T&. T& N&. N&)
            a1!
           ) i$
         ))
         :pattern ((vstd!seq.Seq.index.? T&. T& (vstd!view.View.view.? $ (ARRAY T&. T& N&. N&)
            a2!
           ) i$
         ))
         :qid user_vstd__array__axiom_array_ext_equal_0
         :skolemid skolem_user_vstd__array__axiom_array_ext_equal_0
    )))))
    :pattern ((ext_eq false (ARRAY T&. T& N&. N&) a1! a2!))
    :qid user_vstd__array__axiom_array_ext_equal_1
    :skolemid skolem_user_vstd__array__axiom_array_ext_equal_1
))))

;; Broadcast vstd::array::axiom_array_has_resolved
(assert
 (=>
  (fuel_bool fuel%vstd!array.axiom_array_has_resolved.)
  (forall ((T&. Dcr) (T& Type) (N&. Dcr) (N& Type) (array! Poly) (i! Poly)) (!
    (=>
     (and
      (has_type array! (ARRAY T&. T& N&. N&))
      (has_type i! INT)
     )
     (=>
      (and
       (sized T&.)
       (uInv SZ (const_int N&))
      )
      (=>
       (let
        ((tmp%%$ 0))
        (let
         ((tmp%%$1 (%I i!)))
         (let
          ((tmp%%$2 (const_int N&)))
          (and
           (<= tmp%%$ tmp%%$1)
           (< tmp%%$1 tmp%%$2)
       ))))
       (=>
        (has_resolved $ (ARRAY T&. T& N&. N&) array!)
        (has_resolved T&. T& (vstd!seq.Seq.index.? T&. T& (vstd!view.View.view.? $ (ARRAY T&.
            T& N&. N&
           ) array!
          ) i!
    ))))))
    :pattern ((has_resolved $ (ARRAY T&. T& N&. N&) array!) (vstd!seq.Seq.index.? T&. T&
      (vstd!view.View.view.? $ (ARRAY T&. T& N&. N&) array!) i!
    ))
    :qid user_vstd__array__axiom_array_has_resolved_0
    :skolemid skolem_user_vstd__array__axiom_array_has_resolved_0
))))

;; Broadcast vstd::array::axiom_array_decreases_to_seq
(assert
 (=>
  (fuel_bool fuel%vstd!array.axiom_array_decreases_to_seq.)
  (forall ((T&. Dcr) (T& Type) (N&. Dcr) (N& Type) (a! Poly)) (!
    (=>
     (has_type a! (ARRAY T&. T& N&. N&))
     (=>
      (and
       (sized T&.)
       (uInv SZ (const_int N&))
      )
      (height_lt (height (vstd!view.View.view.? $ (ARRAY T&. T& N&. N&) a!)) (height a!))
    ))
    :pattern ((height (vstd!view.View.view.? $ (ARRAY T&. T& N&. N&) a!)))
    :qid user_vstd__array__axiom_array_decreases_to_seq_0
    :skolemid skolem_user_vstd__array__axiom_array_decreases_to_seq_0
))))

;; Broadcast vstd::array::lemma_array_index_decreases
(assert
 (=>
  (fuel_bool fuel%vstd!array.lemma_array_index_decreases.)
  (forall ((T&. Dcr) (T& Type) (N&. Dcr) (N& Type) (a! Poly) (i! Poly)) (!
    (=>
     (and
      (has_type a! (ARRAY T&. T& N&. N&))
      (has_type i! INT)
     )
     (=>
      (and
       (and
        (sized T&.)
        (uInv SZ (const_int N&))
       )
       (let
        ((tmp%%$ 0))
        (let
         ((tmp%%$1 (%I i!)))
         (let
          ((tmp%%$2 (vstd!seq.Seq.len.? T&. T& (vstd!view.View.view.? $ (ARRAY T&. T& N&. N&) a!))))
          (and
           (<= tmp%%$ tmp%%$1)
           (< tmp%%$1 tmp%%$2)
      )))))
      (height_lt (height (vstd!seq.Seq.index.? T&. T& (vstd!view.View.view.? $ (ARRAY T&. T&
           N&. N&
          ) a!
         ) i!
        )
       ) (height a!)
    )))
    :pattern ((height (vstd!seq.Seq.index.? T&. T& (vstd!view.View.view.? $ (ARRAY T&. T&
         N&. N&
        ) a!
       ) i!
    )))
    :qid user_vstd__array__lemma_array_index_decreases_0
    :skolemid skolem_user_vstd__array__lemma_array_index_decreases_0
))))

;; Trait-Impl-Axiom
(assert
 (tr_bound%vstd!view.View. $slice STRSLICE)
)

;; Broadcast vstd::string::axiom_str_literal_len
(assert
 (=>
  (fuel_bool fuel%vstd!string.axiom_str_literal_len.)
  (forall ((s! Poly)) (!
    (=>
     (has_type s! STRSLICE)
     (= (vstd!seq.Seq.len.? $ CHAR (vstd!view.View.view.? $slice STRSLICE s!)) (str%strslice_len
       (%Poly%strslice%. s!)
    )))
    :pattern ((vstd!seq.Seq.len.? $ CHAR (vstd!view.View.view.? $slice STRSLICE s!)))
    :qid user_vstd__string__axiom_str_literal_len_0
    :skolemid skolem_user_vstd__string__axiom_str_literal_len_0
))))

;; Broadcast vstd::string::axiom_str_literal_get_char
(assert
 (=>
  (fuel_bool fuel%vstd!string.axiom_str_literal_get_char.)
  (forall ((s! Poly) (i! Poly)) (!
    (=>
     (and
      (has_type s! STRSLICE)
      (has_type i! INT)
     )
     (= (%I (vstd!seq.Seq.index.? $ CHAR (vstd!view.View.view.? $slice STRSLICE s!) i!))
      (str%strslice_get_char (%Poly%strslice%. s!) (%I i!))
    ))
    :pattern ((vstd!seq.Seq.index.? $ CHAR (vstd!view.View.view.? $slice STRSLICE s!) i!))
    :qid user_vstd__string__axiom_str_literal_get_char_0
    :skolemid skolem_user_vstd__string__axiom_str_literal_get_char_0
))))

;; Function-Axioms vstd::raw_ptr::view_reverse_for_eq
(assert
 (forall ((T&. Dcr) (T& Type) (data! Poly)) (!
   (=>
    (has_type data! (TYPE%vstd!raw_ptr.PtrData. T&. T&))
    (has_type (vstd!raw_ptr.view_reverse_for_eq.? T&. T& data!) (PTR T&. T&))
   )
   :pattern ((vstd!raw_ptr.view_reverse_for_eq.? T&. T& data!))
   :qid internal_vstd!raw_ptr.view_reverse_for_eq.?_pre_post_definition
   :skolemid skolem_internal_vstd!raw_ptr.view_reverse_for_eq.?_pre_post_definition
)))

;; Trait-Impl-Axiom
(assert
 (forall ((T&. Dcr) (T& Type)) (!
   (tr_bound%vstd!view.View. $ (PTR T&. T&))
   :pattern ((tr_bound%vstd!view.View. $ (PTR T&. T&)))
   :qid internal_vstd__raw_ptr__impl&__2_trait_impl_definition
   :skolemid skolem_internal_vstd__raw_ptr__impl&__2_trait_impl_definition
)))

;; Broadcast vstd::raw_ptr::ptrs_mut_eq
(assert
 (=>
  (fuel_bool fuel%vstd!raw_ptr.ptrs_mut_eq.)
  (forall ((T&. Dcr) (T& Type) (a! Poly)) (!
    (=>
     (has_type a! (PTR T&. T&))
     (= (vstd!raw_ptr.view_reverse_for_eq.? T&. T& (vstd!view.View.view.? $ (PTR T&. T&)
        a!
       )
      ) a!
    ))
    :pattern ((vstd!view.View.view.? $ (PTR T&. T&) a!))
    :qid user_vstd__raw_ptr__ptrs_mut_eq_0
    :skolemid skolem_user_vstd__raw_ptr__ptrs_mut_eq_0
))))

;; Function-Axioms vstd::raw_ptr::view_reverse_for_eq_sized
(assert
 (forall ((T&. Dcr) (T& Type) (addr! Poly) (provenance! Poly)) (!
   (=>
    (and
     (has_type addr! USIZE)
     (has_type provenance! TYPE%vstd!raw_ptr.Provenance.)
    )
    (has_type (vstd!raw_ptr.view_reverse_for_eq_sized.? T&. T& addr! provenance!) (PTR
      T&. T&
   )))
   :pattern ((vstd!raw_ptr.view_reverse_for_eq_sized.? T&. T& addr! provenance!))
   :qid internal_vstd!raw_ptr.view_reverse_for_eq_sized.?_pre_post_definition
   :skolemid skolem_internal_vstd!raw_ptr.view_reverse_for_eq_sized.?_pre_post_definition
)))

;; Broadcast vstd::raw_ptr::ptrs_mut_eq_sized
(assert
 (=>
  (fuel_bool fuel%vstd!raw_ptr.ptrs_mut_eq_sized.)
  (forall ((T&. Dcr) (T& Type) (a! Poly)) (!
    (=>
     (has_type a! (PTR T&. T&))
     (=>
      (sized T&.)
      (= (vstd!raw_ptr.view_reverse_for_eq_sized.? T&. T& (I (vstd!raw_ptr.PtrData./PtrData/addr
          (%Poly%vstd!raw_ptr.PtrData. (vstd!view.View.view.? $ (PTR T&. T&) a!))
         )
        ) (Poly%vstd!raw_ptr.Provenance. (vstd!raw_ptr.PtrData./PtrData/provenance (%Poly%vstd!raw_ptr.PtrData.
           (vstd!view.View.view.? $ (PTR T&. T&) a!)
        )))
       ) a!
    )))
    :pattern ((vstd!view.View.view.? $ (PTR T&. T&) a!))
    :qid user_vstd__raw_ptr__ptrs_mut_eq_sized_0
    :skolemid skolem_user_vstd__raw_ptr__ptrs_mut_eq_sized_0
))))

;; Broadcast vstd::std_specs::hash::axiom_bool_obeys_hash_table_key_model
(assert
 (=>
  (fuel_bool fuel%vstd!std_specs.hash.axiom_bool_obeys_hash_table_key_model.)
  (vstd!std_specs.hash.obeys_key_model.? $ BOOL)
))

;; Broadcast vstd::std_specs::hash::axiom_u8_obeys_hash_table_key_model
(assert
 (=>
  (fuel_bool fuel%vstd!std_specs.hash.axiom_u8_obeys_hash_table_key_model.)
  (vstd!std_specs.hash.obeys_key_model.? $ (UINT 8))
))

;; Broadcast vstd::std_specs::hash::axiom_u16_obeys_hash_table_key_model
(assert
 (=>
  (fuel_bool fuel%vstd!std_specs.hash.axiom_u16_obeys_hash_table_key_model.)
  (vstd!std_specs.hash.obeys_key_model.? $ (UINT 16))
))

;; Broadcast vstd::std_specs::hash::axiom_u32_obeys_hash_table_key_model
(assert
 (=>
  (fuel_bool fuel%vstd!std_specs.hash.axiom_u32_obeys_hash_table_key_model.)
  (vstd!std_specs.hash.obeys_key_model.? $ (UINT 32))
))

;; Broadcast vstd::std_specs::hash::axiom_u64_obeys_hash_table_key_model
(assert
 (=>
  (fuel_bool fuel%vstd!std_specs.hash.axiom_u64_obeys_hash_table_key_model.)
  (vstd!std_specs.hash.obeys_key_model.? $ (UINT 64))
))

;; Broadcast vstd::std_specs::hash::axiom_u128_obeys_hash_table_key_model
(assert
 (=>
  (fuel_bool fuel%vstd!std_specs.hash.axiom_u128_obeys_hash_table_key_model.)
  (vstd!std_specs.hash.obeys_key_model.? $ (UINT 128))
))

;; Broadcast vstd::std_specs::hash::axiom_usize_obeys_hash_table_key_model
(assert
 (=>
  (fuel_bool fuel%vstd!std_specs.hash.axiom_usize_obeys_hash_table_key_model.)
  (vstd!std_specs.hash.obeys_key_model.? $ USIZE)
))

;; Broadcast vstd::std_specs::hash::axiom_i8_obeys_hash_table_key_model
(assert
 (=>
  (fuel_bool fuel%vstd!std_specs.hash.axiom_i8_obeys_hash_table_key_model.)
  (vstd!std_specs.hash.obeys_key_model.? $ (SINT 8))
))

;; Broadcast vstd::std_specs::hash::axiom_i16_obeys_hash_table_key_model
(assert
 (=>
  (fuel_bool fuel%vstd!std_specs.hash.axiom_i16_obeys_hash_table_key_model.)
  (vstd!std_specs.hash.obeys_key_model.? $ (SINT 16))
))

;; Broadcast vstd::std_specs::hash::axiom_i32_obeys_hash_table_key_model
(assert
 (=>
  (fuel_bool fuel%vstd!std_specs.hash.axiom_i32_obeys_hash_table_key_model.)
  (vstd!std_specs.hash.obeys_key_model.? $ (SINT 32))
))

;; Broadcast vstd::std_specs::hash::axiom_i64_obeys_hash_table_key_model
(assert
 (=>
  (fuel_bool fuel%vstd!std_specs.hash.axiom_i64_obeys_hash_table_key_model.)
  (vstd!std_specs.hash.obeys_key_model.? $ (SINT 64))
))

;; Broadcast vstd::std_specs::hash::axiom_i128_obeys_hash_table_key_model
(assert
 (=>
  (fuel_bool fuel%vstd!std_specs.hash.axiom_i128_obeys_hash_table_key_model.)
  (vstd!std_specs.hash.obeys_key_model.? $ (SINT 128))
))

;; Broadcast vstd::std_specs::hash::axiom_isize_obeys_hash_table_key_model
(assert
 (=>
  (fuel_bool fuel%vstd!std_specs.hash.axiom_isize_obeys_hash_table_key_model.)
  (vstd!std_specs.hash.obeys_key_model.? $ ISIZE)
))

;; Broadcast vstd::std_specs::hash::axiom_box_bool_obeys_hash_table_key_model
(assert
 (=>
  (fuel_bool fuel%vstd!std_specs.hash.axiom_box_bool_obeys_hash_table_key_model.)
  (vstd!std_specs.hash.obeys_key_model.? (BOX $ TYPE%alloc!alloc.Global. $) BOOL)
))

;; Broadcast vstd::std_specs::hash::axiom_box_integer_type_obeys_hash_table_key_model
(assert
 (=>
  (fuel_bool fuel%vstd!std_specs.hash.axiom_box_integer_type_obeys_hash_table_key_model.)
  (forall ((Key&. Dcr) (Key& Type)) (!
    (=>
     (and
      (tr_bound%verus_builtin!Integer. Key&. Key&)
      (vstd!std_specs.hash.obeys_key_model.? Key&. Key&)
     )
     (vstd!std_specs.hash.obeys_key_model.? (BOX $ TYPE%alloc!alloc.Global. Key&.) Key&)
    )
    :pattern ((vstd!std_specs.hash.obeys_key_model.? (BOX $ TYPE%alloc!alloc.Global. Key&.)
      Key&
    ))
    :qid user_vstd__std_specs__hash__axiom_box_integer_type_obeys_hash_table_key_model_0
    :skolemid skolem_user_vstd__std_specs__hash__axiom_box_integer_type_obeys_hash_table_key_model_0
))))

;; Trait-Impl-Axiom
(assert
 (tr_bound%core!alloc.Allocator. $ TYPE%alloc!alloc.Global.)
)

;; Trait-Impl-Axiom
(assert
 (forall ((Key&. Dcr) (Key& Type) (Value&. Dcr) (Value& Type) (S&. Dcr) (S& Type) (A&.
    Dcr
   ) (A& Type)
  ) (!
   (=>
    (and
     (sized Key&.)
     (sized Value&.)
     (sized S&.)
     (sized A&.)
     (tr_bound%core!alloc.Allocator. A&. A&)
    )
    (tr_bound%vstd!view.View. $ (TYPE%std!collections.hash.map.HashMap. Key&. Key& Value&.
      Value& S&. S& A&. A&
   )))
   :pattern ((tr_bound%vstd!view.View. $ (TYPE%std!collections.hash.map.HashMap. Key&.
      Key& Value&. Value& S&. S& A&. A&
   )))
   :qid internal_vstd__view__impl&__10_trait_impl_definition
   :skolemid skolem_internal_vstd__view__impl&__10_trait_impl_definition
)))

;; Broadcast vstd::std_specs::hash::axiom_hashmap_decreases
(assert
 (=>
  (fuel_bool fuel%vstd!std_specs.hash.axiom_hashmap_decreases.)
  (forall ((Key&. Dcr) (Key& Type) (Value&. Dcr) (Value& Type) (S&. Dcr) (S& Type) (m!
     Poly
    )
   ) (!
    (=>
     (has_type m! (TYPE%std!collections.hash.map.HashMap. Key&. Key& Value&. Value& S&.
       S& $ TYPE%alloc!alloc.Global.
     ))
     (=>
      (and
       (and
        (sized Key&.)
        (sized Value&.)
       )
       (sized S&.)
      )
      (height_lt (height (vstd!view.View.view.? $ (TYPE%std!collections.hash.map.HashMap. Key&.
          Key& Value&. Value& S&. S& $ TYPE%alloc!alloc.Global.
         ) m!
        )
       ) (height m!)
    )))
    :pattern ((height (vstd!view.View.view.? $ (TYPE%std!collections.hash.map.HashMap. Key&.
        Key& Value&. Value& S&. S& $ TYPE%alloc!alloc.Global.
       ) m!
    )))
    :qid user_vstd__std_specs__hash__axiom_hashmap_decreases_0
    :skolemid skolem_user_vstd__std_specs__hash__axiom_hashmap_decreases_0
))))

;; Function-Axioms vstd::std_specs::nonzero::ZeroablePrimitiveSpec::is_zero
(assert
 (forall ((Self%&. Dcr) (Self%& Type) (self! Poly)) (!
   (=>
    (has_type self! Self%&)
    (has_type (vstd!std_specs.nonzero.ZeroablePrimitiveSpec.is_zero.? Self%&. Self%& self!)
     BOOL
   ))
   :pattern ((vstd!std_specs.nonzero.ZeroablePrimitiveSpec.is_zero.? Self%&. Self%& self!))
   :qid internal_vstd!std_specs.nonzero.ZeroablePrimitiveSpec.is_zero.?_pre_post_definition
   :skolemid skolem_internal_vstd!std_specs.nonzero.ZeroablePrimitiveSpec.is_zero.?_pre_post_definition
)))

;; Trait-Impl-Axiom
(assert
 (forall ((VERUS_SPEC__A&. Dcr) (VERUS_SPEC__A& Type)) (!
   (=>
    (and
     (sized VERUS_SPEC__A&.)
     (tr_bound%core!num.nonzero.ZeroablePrimitive. VERUS_SPEC__A&. VERUS_SPEC__A&)
    )
    (tr_bound%vstd!std_specs.nonzero.ZeroablePrimitiveSpec. VERUS_SPEC__A&. VERUS_SPEC__A&)
   )
   :pattern ((tr_bound%vstd!std_specs.nonzero.ZeroablePrimitiveSpec. VERUS_SPEC__A&. VERUS_SPEC__A&))
   :qid internal_vstd__std_specs__nonzero__impl&__17_trait_impl_definition
   :skolemid skolem_internal_vstd__std_specs__nonzero__impl&__17_trait_impl_definition
)))

;; Trait-Impl-Axiom
(assert
 (forall ((T&. Dcr) (T& Type)) (!
   (=>
    (and
     (sized T&.)
     (tr_bound%core!num.nonzero.ZeroablePrimitive. T&. T&)
    )
    (tr_bound%vstd!view.View. $ (TYPE%core!num.nonzero.NonZero. T&. T&))
   )
   :pattern ((tr_bound%vstd!view.View. $ (TYPE%core!num.nonzero.NonZero. T&. T&)))
   :qid internal_vstd__std_specs__nonzero__impl&__11_trait_impl_definition
   :skolemid skolem_internal_vstd__std_specs__nonzero__impl&__11_trait_impl_definition
)))

;; Broadcast vstd::std_specs::nonzero::axiom_nonzero_is_not_zero
(assert
 (=>
  (fuel_bool fuel%vstd!std_specs.nonzero.axiom_nonzero_is_not_zero.)
  (forall ((T&. Dcr) (T& Type) (n! Poly)) (!
    (=>
     (has_type n! (TYPE%core!num.nonzero.NonZero. T&. T&))
     (=>
      (and
       (sized T&.)
       (tr_bound%core!num.nonzero.ZeroablePrimitive. T&. T&)
      )
      (not (%B (vstd!std_specs.nonzero.ZeroablePrimitiveSpec.is_zero.? T&. T& (vstd!view.View.view.?
          $ (TYPE%core!num.nonzero.NonZero. T&. T&) n!
    ))))))
    :pattern ((vstd!view.View.view.? $ (TYPE%core!num.nonzero.NonZero. T&. T&) n!))
    :qid user_vstd__std_specs__nonzero__axiom_nonzero_is_not_zero_0
    :skolemid skolem_user_vstd__std_specs__nonzero__axiom_nonzero_is_not_zero_0
))))

;; Trait-Impl-Axiom
(assert
 (tr_bound%core!marker.Tuple. $ TYPE%tuple%0.)
)

;; Trait-Impl-Axiom
(assert
 (tr_bound%core!clone.Clone. $ TYPE%tuple%0.)
)

;; Trait-Impl-Axiom
(assert
 (tr_bound%core!marker.Copy. $ TYPE%tuple%0.)
)

;; Trait-Impl-Axiom
(assert
 (forall ((T%0&. Dcr) (T%0& Type) (T%1&. Dcr) (T%1& Type)) (!
   (tr_bound%core!marker.Tuple. (DST T%1&.) (TYPE%tuple%2. T%0&. T%0& T%1&. T%1&))
   :pattern ((tr_bound%core!marker.Tuple. (DST T%1&.) (TYPE%tuple%2. T%0&. T%0& T%1&. T%1&)))
   :qid internal_crate__impl_tuple&__Tuple2_trait_impl_definition
   :skolemid skolem_internal_crate__impl_tuple&__Tuple2_trait_impl_definition
)))

;; Trait-Impl-Axiom
(assert
 (forall ((T%0&. Dcr) (T%0& Type) (T%1&. Dcr) (T%1& Type)) (!
   (=>
    (and
     (tr_bound%core!clone.Clone. T%0&. T%0&)
     (tr_bound%core!clone.Clone. T%1&. T%1&)
    )
    (tr_bound%core!clone.Clone. (DST T%1&.) (TYPE%tuple%2. T%0&. T%0& T%1&. T%1&))
   )
   :pattern ((tr_bound%core!clone.Clone. (DST T%1&.) (TYPE%tuple%2. T%0&. T%0& T%1&. T%1&)))
   :qid internal_crate__impl_tuple&__Clone2_trait_impl_definition
   :skolemid skolem_internal_crate__impl_tuple&__Clone2_trait_impl_definition
)))

;; Trait-Impl-Axiom
(assert
 (forall ((T%0&. Dcr) (T%0& Type) (T%1&. Dcr) (T%1& Type)) (!
   (=>
    (and
     (tr_bound%core!marker.Copy. T%0&. T%0&)
     (tr_bound%core!marker.Copy. T%1&. T%1&)
    )
    (tr_bound%core!marker.Copy. (DST T%1&.) (TYPE%tuple%2. T%0&. T%0& T%1&. T%1&))
   )
   :pattern ((tr_bound%core!marker.Copy. (DST T%1&.) (TYPE%tuple%2. T%0&. T%0& T%1&. T%1&)))
   :qid internal_crate__impl_tuple&__Copy2_trait_impl_definition
   :skolemid skolem_internal_crate__impl_tuple&__Copy2_trait_impl_definition
)))

;; Function-Axioms vstd::std_specs::convert::FromSpec::obeys_from_spec
(assert
 (forall ((Self%&. Dcr) (Self%& Type) (T&. Dcr) (T& Type)) (!
   (has_type (vstd!std_specs.convert.FromSpec.obeys_from_spec.? Self%&. Self%& T&. T&)
    BOOL
   )
   :pattern ((vstd!std_specs.convert.FromSpec.obeys_from_spec.? Self%&. Self%& T&. T&))
   :qid internal_vstd!std_specs.convert.FromSpec.obeys_from_spec.?_pre_post_definition
   :skolemid skolem_internal_vstd!std_specs.convert.FromSpec.obeys_from_spec.?_pre_post_definition
)))

;; Function-Axioms vstd::std_specs::convert::FromSpec::from_spec
(assert
 (forall ((Self%&. Dcr) (Self%& Type) (T&. Dcr) (T& Type) (v! Poly)) (!
   (=>
    (has_type v! T&)
    (has_type (vstd!std_specs.convert.FromSpec.from_spec.? Self%&. Self%& T&. T& v!) Self%&)
   )
   :pattern ((vstd!std_specs.convert.FromSpec.from_spec.? Self%&. Self%& T&. T& v!))
   :qid internal_vstd!std_specs.convert.FromSpec.from_spec.?_pre_post_definition
   :skolemid skolem_internal_vstd!std_specs.convert.FromSpec.from_spec.?_pre_post_definition
)))

;; Function-Specs core::convert::From::from
(declare-fun ens%core!convert.From.from. (Dcr Type Dcr Type Poly Poly) Bool)
(assert
 (forall ((Self%&. Dcr) (Self%& Type) (T&. Dcr) (T& Type) (v! Poly) (ret! Poly)) (!
   (= (ens%core!convert.From.from. Self%&. Self%& T&. T& v! ret!) (and
     (has_type ret! Self%&)
     (=>
      (%B (vstd!std_specs.convert.FromSpec.obeys_from_spec.? Self%&. Self%& T&. T&))
      (= ret! (vstd!std_specs.convert.FromSpec.from_spec.? Self%&. Self%& T&. T& v!))
   )))
   :pattern ((ens%core!convert.From.from. Self%&. Self%& T&. T& v! ret!))
   :qid internal_ens__core!convert.From.from._definition
   :skolemid skolem_internal_ens__core!convert.From.from._definition
)))

;; Function-Axioms vstd::std_specs::core::IndexSpec::index_req
(assert
 (forall ((Self%&. Dcr) (Self%& Type) (Idx&. Dcr) (Idx& Type) (self! Poly) (index! Poly))
  (!
   (=>
    (and
     (has_type self! Self%&)
     (has_type index! Idx&)
    )
    (has_type (vstd!std_specs.core.IndexSpec.index_req.? Self%&. Self%& Idx&. Idx& self!
      index!
     ) BOOL
   ))
   :pattern ((vstd!std_specs.core.IndexSpec.index_req.? Self%&. Self%& Idx&. Idx& self!
     index!
   ))
   :qid internal_vstd!std_specs.core.IndexSpec.index_req.?_pre_post_definition
   :skolemid skolem_internal_vstd!std_specs.core.IndexSpec.index_req.?_pre_post_definition
)))

;; Function-Specs core::ops::index::Index::index
(declare-fun req%core!ops.index.Index.index. (Dcr Type Dcr Type Poly Poly) Bool)
(declare-const %%global_location_label%%7 Bool)
(assert
 (forall ((Self%&. Dcr) (Self%& Type) (Idx&. Dcr) (Idx& Type) (self! Poly) (index! Poly))
  (!
   (= (req%core!ops.index.Index.index. Self%&. Self%& Idx&. Idx& self! index!) (=>
     %%global_location_label%%7
     (%B (vstd!std_specs.core.IndexSpec.index_req.? Self%&. Self%& Idx&. Idx& self! index!))
   ))
   :pattern ((req%core!ops.index.Index.index. Self%&. Self%& Idx&. Idx& self! index!))
   :qid internal_req__core!ops.index.Index.index._definition
   :skolemid skolem_internal_req__core!ops.index.Index.index._definition
)))
(declare-fun ens%core!ops.index.Index.index. (Dcr Type Dcr Type Poly Poly Poly) Bool)
(assert
 (forall ((Self%&. Dcr) (Self%& Type) (Idx&. Dcr) (Idx& Type) (self! Poly) (index! Poly)
   (%return! Poly)
  ) (!
   (= (ens%core!ops.index.Index.index. Self%&. Self%& Idx&. Idx& self! index! %return!)
    (has_type %return! (proj%core!ops.index.Index./Output Self%&. Self%& Idx&. Idx&))
   )
   :pattern ((ens%core!ops.index.Index.index. Self%&. Self%& Idx&. Idx& self! index! %return!))
   :qid internal_ens__core!ops.index.Index.index._definition
   :skolemid skolem_internal_ens__core!ops.index.Index.index._definition
)))
(assert
 (forall ((closure%$ Poly) (Self%&. Dcr) (Self%& Type) (Idx&. Dcr) (Idx& Type)) (!
   (=>
    (has_type closure%$ (TYPE%tuple%2. (REF Self%&.) Self%& Idx&. Idx&))
    (=>
     (%B (let
       ((self$ (tuple%2./tuple%2/0 (%Poly%tuple%2. closure%$))))
       (let
        ((index$ (tuple%2./tuple%2/1 (%Poly%tuple%2. closure%$))))
        (vstd!std_specs.core.IndexSpec.index_req.? Self%&. Self%& Idx&. Idx& self$ index$)
     )))
     (closure_req (FNDEF%core!ops.index.Index.index. Self%&. Self%& Idx&. Idx&) (DST Idx&.)
      (TYPE%tuple%2. (REF Self%&.) Self%& Idx&. Idx&) (F fndef_singleton) closure%$
   )))
   :pattern ((closure_req (FNDEF%core!ops.index.Index.index. Self%&. Self%& Idx&. Idx&)
     (DST Idx&.) (TYPE%tuple%2. (REF Self%&.) Self%& Idx&. Idx&) (F fndef_singleton) closure%$
   ))
   :qid user_core__ops__index__Index__index_0
   :skolemid skolem_user_core__ops__index__Index__index_0
)))

;; Function-Axioms vstd::std_specs::range::RangeBoundsSpec::spec_start_bound
(assert
 (forall ((Self%&. Dcr) (Self%& Type) (T&. Dcr) (T& Type) (self! Poly)) (!
   (=>
    (has_type self! Self%&)
    (has_type (vstd!std_specs.range.RangeBoundsSpec.spec_start_bound.? Self%&. Self%& T&.
      T& self!
     ) (TYPE%core!ops.range.Bound. (REF T&.) T&)
   ))
   :pattern ((vstd!std_specs.range.RangeBoundsSpec.spec_start_bound.? Self%&. Self%& T&.
     T& self!
   ))
   :qid internal_vstd!std_specs.range.RangeBoundsSpec.spec_start_bound.?_pre_post_definition
   :skolemid skolem_internal_vstd!std_specs.range.RangeBoundsSpec.spec_start_bound.?_pre_post_definition
)))

;; Function-Axioms vstd::std_specs::range::RangeBoundsSpec::spec_end_bound
(assert
 (forall ((Self%&. Dcr) (Self%& Type) (T&. Dcr) (T& Type) (self! Poly)) (!
   (=>
    (has_type self! Self%&)
    (has_type (vstd!std_specs.range.RangeBoundsSpec.spec_end_bound.? Self%&. Self%& T&.
      T& self!
     ) (TYPE%core!ops.range.Bound. (REF T&.) T&)
   ))
   :pattern ((vstd!std_specs.range.RangeBoundsSpec.spec_end_bound.? Self%&. Self%& T&.
     T& self!
   ))
   :qid internal_vstd!std_specs.range.RangeBoundsSpec.spec_end_bound.?_pre_post_definition
   :skolemid skolem_internal_vstd!std_specs.range.RangeBoundsSpec.spec_end_bound.?_pre_post_definition
)))

;; Function-Axioms vstd::slice::SliceIndexSpec::in_bounds
(assert
 (forall ((Self%&. Dcr) (Self%& Type) (T&. Dcr) (T& Type) (self! Poly) (slice! Poly))
  (!
   (=>
    (and
     (has_type self! Self%&)
     (has_type slice! T&)
    )
    (has_type (vstd!slice.SliceIndexSpec.in_bounds.? Self%&. Self%& T&. T& self! slice!)
     BOOL
   ))
   :pattern ((vstd!slice.SliceIndexSpec.in_bounds.? Self%&. Self%& T&. T& self! slice!))
   :qid internal_vstd!slice.SliceIndexSpec.in_bounds.?_pre_post_definition
   :skolemid skolem_internal_vstd!slice.SliceIndexSpec.in_bounds.?_pre_post_definition
)))

;; Function-Axioms vstd::slice::SliceIndexSpec::index_postcondition
(assert
 (forall ((Self%&. Dcr) (Self%& Type) (T&. Dcr) (T& Type) (self! Poly) (slice! Poly)
   (r! Poly)
  ) (!
   (=>
    (and
     (has_type self! Self%&)
     (has_type slice! T&)
     (has_type r! (proj%core!slice.index.SliceIndex./Output Self%&. Self%& T&. T&))
    )
    (has_type (vstd!slice.SliceIndexSpec.index_postcondition.? Self%&. Self%& T&. T& self!
      slice! r!
     ) BOOL
   ))
   :pattern ((vstd!slice.SliceIndexSpec.index_postcondition.? Self%&. Self%& T&. T& self!
     slice! r!
   ))
   :qid internal_vstd!slice.SliceIndexSpec.index_postcondition.?_pre_post_definition
   :skolemid skolem_internal_vstd!slice.SliceIndexSpec.index_postcondition.?_pre_post_definition
)))

;; Function-Specs core::slice::index::SliceIndex::index
(declare-fun req%core!slice.index.SliceIndex.index. (Dcr Type Dcr Type Poly Poly)
 Bool
)
(declare-const %%global_location_label%%8 Bool)
(assert
 (forall ((Self%&. Dcr) (Self%& Type) (T&. Dcr) (T& Type) (self! Poly) (slice! Poly))
  (!
   (= (req%core!slice.index.SliceIndex.index. Self%&. Self%& T&. T& self! slice!) (=>
     %%global_location_label%%8
     (%B (vstd!slice.SliceIndexSpec.in_bounds.? Self%&. Self%& T&. T& self! slice!))
   ))
   :pattern ((req%core!slice.index.SliceIndex.index. Self%&. Self%& T&. T& self! slice!))
   :qid internal_req__core!slice.index.SliceIndex.index._definition
   :skolemid skolem_internal_req__core!slice.index.SliceIndex.index._definition
)))
(declare-fun ens%core!slice.index.SliceIndex.index. (Dcr Type Dcr Type Poly Poly Poly)
 Bool
)
(assert
 (forall ((Self%&. Dcr) (Self%& Type) (T&. Dcr) (T& Type) (self! Poly) (slice! Poly)
   (r! Poly)
  ) (!
   (= (ens%core!slice.index.SliceIndex.index. Self%&. Self%& T&. T& self! slice! r!)
    (and
     (has_type r! (proj%core!slice.index.SliceIndex./Output Self%&. Self%& T&. T&))
     (%B (vstd!slice.SliceIndexSpec.index_postcondition.? Self%&. Self%& T&. T& self! slice!
       r!
   ))))
   :pattern ((ens%core!slice.index.SliceIndex.index. Self%&. Self%& T&. T& self! slice!
     r!
   ))
   :qid internal_ens__core!slice.index.SliceIndex.index._definition
   :skolemid skolem_internal_ens__core!slice.index.SliceIndex.index._definition
)))
(assert
 (forall ((closure%$ Poly) (Self%&. Dcr) (Self%& Type) (T&. Dcr) (T& Type)) (!
   (=>
    (has_type closure%$ (TYPE%tuple%2. Self%&. Self%& (REF T&.) T&))
    (=>
     (%B (let
       ((self$ (tuple%2./tuple%2/0 (%Poly%tuple%2. closure%$))))
       (let
        ((slice$ (tuple%2./tuple%2/1 (%Poly%tuple%2. closure%$))))
        (vstd!slice.SliceIndexSpec.in_bounds.? Self%&. Self%& T&. T& self$ slice$)
     )))
     (closure_req (FNDEF%core!slice.index.SliceIndex.index. Self%&. Self%& T&. T&) (DST
       (REF T&.)
      ) (TYPE%tuple%2. Self%&. Self%& (REF T&.) T&) (F fndef_singleton) closure%$
   )))
   :pattern ((closure_req (FNDEF%core!slice.index.SliceIndex.index. Self%&. Self%& T&.
      T&
     ) (DST (REF T&.)) (TYPE%tuple%2. Self%&. Self%& (REF T&.) T&) (F fndef_singleton)
     closure%$
   ))
   :qid user_core__slice__index__SliceIndex__index_0
   :skolemid skolem_user_core__slice__index__SliceIndex__index_0
)))
(assert
 (forall ((closure%$ Poly) (r$ Poly) (Self%&. Dcr) (Self%& Type) (T&. Dcr) (T& Type))
  (!
   (=>
    (and
     (has_type closure%$ (TYPE%tuple%2. Self%&. Self%& (REF T&.) T&))
     (has_type r$ (proj%core!slice.index.SliceIndex./Output Self%&. Self%& T&. T&))
    )
    (=>
     (closure_ens (FNDEF%core!slice.index.SliceIndex.index. Self%&. Self%& T&. T&) (DST
       (REF T&.)
      ) (TYPE%tuple%2. Self%&. Self%& (REF T&.) T&) (F fndef_singleton) closure%$ r$
     )
     (%B (let
       ((self$ (tuple%2./tuple%2/0 (%Poly%tuple%2. closure%$))))
       (let
        ((slice$ (tuple%2./tuple%2/1 (%Poly%tuple%2. closure%$))))
        (vstd!slice.SliceIndexSpec.index_postcondition.? Self%&. Self%& T&. T& self$ slice$
         r$
   ))))))
   :pattern ((closure_ens (FNDEF%core!slice.index.SliceIndex.index. Self%&. Self%& T&.
      T&
     ) (DST (REF T&.)) (TYPE%tuple%2. Self%&. Self%& (REF T&.) T&) (F fndef_singleton)
     closure%$ r$
   ))
   :qid user_core__slice__index__SliceIndex__index_1
   :skolemid skolem_user_core__slice__index__SliceIndex__index_1
)))

;; Function-Specs core::slice::index::impl&%0::index
(declare-fun ens%core!slice.index.impl&%0.index. (Dcr Type Dcr Type Poly Poly Poly)
 Bool
)
(assert
 (forall ((T&. Dcr) (T& Type) (I&. Dcr) (I& Type) (slice! Poly) (index! Poly) (output!
    Poly
   )
  ) (!
   (= (ens%core!slice.index.impl&%0.index. T&. T& I&. I& slice! index! output!) (and
     (ens%core!ops.index.Index.index. $slice (SLICE T&. T&) I&. I& slice! index! output!)
     (closure_ens (FNDEF%core!slice.index.SliceIndex.index. I&. I& $slice (SLICE T&. T&))
      (DST (REF $slice)) (TYPE%tuple%2. I&. I& (REF $slice) (SLICE T&. T&)) (F fndef_singleton)
      (Poly%tuple%2. (tuple%2./tuple%2 index! slice!)) output!
   )))
   :pattern ((ens%core!slice.index.impl&%0.index. T&. T& I&. I& slice! index! output!))
   :qid internal_ens__core!slice.index.impl&__0.index._definition
   :skolemid skolem_internal_ens__core!slice.index.impl&__0.index._definition
)))
(assert
 (forall ((closure%$ Poly) (output$ Poly) (T&. Dcr) (T& Type) (I&. Dcr) (I& Type))
  (!
   (=>
    (and
     (has_type closure%$ (TYPE%tuple%2. (REF $slice) (SLICE T&. T&) I&. I&))
     (has_type output$ (proj%core!slice.index.SliceIndex./Output I&. I& $slice (SLICE T&.
        T&
    ))))
    (=>
     (closure_ens (FNDEF%core!ops.index.Index.index. $slice (SLICE T&. T&) I&. I&) (DST
       I&.
      ) (TYPE%tuple%2. (REF $slice) (SLICE T&. T&) I&. I&) (F fndef_singleton) closure%$
      output$
     )
     (let
      ((slice$ (tuple%2./tuple%2/0 (%Poly%tuple%2. closure%$))))
      (let
       ((index$ (tuple%2./tuple%2/1 (%Poly%tuple%2. closure%$))))
       (closure_ens (FNDEF%core!slice.index.SliceIndex.index. I&. I& $slice (SLICE T&. T&))
        (DST (REF $slice)) (TYPE%tuple%2. I&. I& (REF $slice) (SLICE T&. T&)) (F fndef_singleton)
        (Poly%tuple%2. (tuple%2./tuple%2 index$ slice$)) output$
   )))))
   :pattern ((closure_ens (FNDEF%core!ops.index.Index.index. $slice (SLICE T&. T&) I&.
      I&
     ) (DST I&.) (TYPE%tuple%2. (REF $slice) (SLICE T&. T&) I&. I&) (F fndef_singleton)
     closure%$ output$
   ))
   :qid user_core__slice__index__impl&%0__index_0
   :skolemid skolem_user_core__slice__index__impl&%0__index_0
)))

;; Function-Specs core::array::impl&%15::index
(declare-fun ens%core!array.impl&%15.index. (Dcr Type Dcr Type Dcr Type Poly Poly Poly)
 Bool
)
(assert
 (forall ((T&. Dcr) (T& Type) (I&. Dcr) (I& Type) (N&. Dcr) (N& Type) (array! Poly)
   (index! Poly) (output! Poly)
  ) (!
   (= (ens%core!array.impl&%15.index. T&. T& I&. I& N&. N& array! index! output!) (and
     (ens%core!ops.index.Index.index. $ (ARRAY T&. T& N&. N&) I&. I& array! index! output!)
     (closure_ens (FNDEF%core!ops.index.Index.index. $slice (SLICE T&. T&) I&. I&) (DST
       I&.
      ) (TYPE%tuple%2. (REF $slice) (SLICE T&. T&) I&. I&) (F fndef_singleton) (Poly%tuple%2.
       (tuple%2./tuple%2 (vstd!array.spec_array_as_slice.? T&. T& N&. N& array!) index!)
      ) output!
   )))
   :pattern ((ens%core!array.impl&%15.index. T&. T& I&. I& N&. N& array! index! output!))
   :qid internal_ens__core!array.impl&__15.index._definition
   :skolemid skolem_internal_ens__core!array.impl&__15.index._definition
)))
(assert
 (forall ((closure%$ Poly) (output$ Poly) (T&. Dcr) (T& Type) (I&. Dcr) (I& Type) (N&.
    Dcr
   ) (N& Type)
  ) (!
   (=>
    (and
     (has_type closure%$ (TYPE%tuple%2. (REF $) (ARRAY T&. T& N&. N&) I&. I&))
     (has_type output$ (proj%core!ops.index.Index./Output $slice (SLICE T&. T&) I&. I&))
    )
    (=>
     (closure_ens (FNDEF%core!ops.index.Index.index. $ (ARRAY T&. T& N&. N&) I&. I&) (DST
       I&.
      ) (TYPE%tuple%2. (REF $) (ARRAY T&. T& N&. N&) I&. I&) (F fndef_singleton) closure%$
      output$
     )
     (let
      ((array$ (%Poly%array%. (tuple%2./tuple%2/0 (%Poly%tuple%2. closure%$)))))
      (let
       ((index$ (tuple%2./tuple%2/1 (%Poly%tuple%2. closure%$))))
       (closure_ens (FNDEF%core!ops.index.Index.index. $slice (SLICE T&. T&) I&. I&) (DST
         I&.
        ) (TYPE%tuple%2. (REF $slice) (SLICE T&. T&) I&. I&) (F fndef_singleton) (Poly%tuple%2.
         (tuple%2./tuple%2 (vstd!array.spec_array_as_slice.? T&. T& N&. N& (Poly%array%. array$))
          index$
         )
        ) output$
   )))))
   :pattern ((closure_ens (FNDEF%core!ops.index.Index.index. $ (ARRAY T&. T& N&. N&) I&.
      I&
     ) (DST I&.) (TYPE%tuple%2. (REF $) (ARRAY T&. T& N&. N&) I&. I&) (F fndef_singleton)
     closure%$ output$
   ))
   :qid user_core__array__impl&%15__index_0
   :skolemid skolem_user_core__array__impl&%15__index_0
)))

;; Function-Axioms vstd::string::StringSliceAdditionalSpecFns::spec_bytes
(assert
 (forall ((Self%&. Dcr) (Self%& Type) (self! Poly)) (!
   (=>
    (has_type self! Self%&)
    (has_type (vstd!string.StringSliceAdditionalSpecFns.spec_bytes.? Self%&. Self%& self!)
     (TYPE%vstd!seq.Seq. $ (UINT 8))
   ))
   :pattern ((vstd!string.StringSliceAdditionalSpecFns.spec_bytes.? Self%&. Self%& self!))
   :qid internal_vstd!string.StringSliceAdditionalSpecFns.spec_bytes.?_pre_post_definition
   :skolemid skolem_internal_vstd!string.StringSliceAdditionalSpecFns.spec_bytes.?_pre_post_definition
)))

;; Function-Axioms vstd::std_specs::convert::impl&%6::obeys_from_spec
(assert
 (fuel_bool_default fuel%vstd!std_specs.convert.impl&%6.obeys_from_spec.)
)
(assert
 (=>
  (fuel_bool fuel%vstd!std_specs.convert.impl&%6.obeys_from_spec.)
  (= (vstd!std_specs.convert.FromSpec.obeys_from_spec.? $ (UINT 16) $ (UINT 8)) (B true))
))

;; Function-Axioms vstd::std_specs::convert::impl&%6::from_spec
(assert
 (fuel_bool_default fuel%vstd!std_specs.convert.impl&%6.from_spec.)
)
(assert
 (=>
  (fuel_bool fuel%vstd!std_specs.convert.impl&%6.from_spec.)
  (forall ((v! Poly)) (!
    (= (vstd!std_specs.convert.FromSpec.from_spec.? $ (UINT 16) $ (UINT 8) v!) (I (uClip
       16 (%I v!)
    )))
    :pattern ((vstd!std_specs.convert.FromSpec.from_spec.? $ (UINT 16) $ (UINT 8) v!))
    :qid internal_vstd!std_specs.convert.impl&__6.from_spec.?_definition
    :skolemid skolem_internal_vstd!std_specs.convert.impl&__6.from_spec.?_definition
))))

;; Function-Axioms vstd::std_specs::convert::impl&%7::obeys_from_spec
(assert
 (fuel_bool_default fuel%vstd!std_specs.convert.impl&%7.obeys_from_spec.)
)
(assert
 (=>
  (fuel_bool fuel%vstd!std_specs.convert.impl&%7.obeys_from_spec.)
  (= (vstd!std_specs.convert.FromSpec.obeys_from_spec.? $ (UINT 32) $ (UINT 8)) (B true))
))

;; Function-Axioms vstd::std_specs::convert::impl&%7::from_spec
(assert
 (fuel_bool_default fuel%vstd!std_specs.convert.impl&%7.from_spec.)
)
(assert
 (=>
  (fuel_bool fuel%vstd!std_specs.convert.impl&%7.from_spec.)
  (forall ((v! Poly)) (!
    (= (vstd!std_specs.convert.FromSpec.from_spec.? $ (UINT 32) $ (UINT 8) v!) (I (uClip
       32 (%I v!)
    )))
    :pattern ((vstd!std_specs.convert.FromSpec.from_spec.? $ (UINT 32) $ (UINT 8) v!))
    :qid internal_vstd!std_specs.convert.impl&__7.from_spec.?_definition
    :skolemid skolem_internal_vstd!std_specs.convert.impl&__7.from_spec.?_definition
))))

;; Function-Axioms vstd::std_specs::convert::impl&%8::obeys_from_spec
(assert
 (fuel_bool_default fuel%vstd!std_specs.convert.impl&%8.obeys_from_spec.)
)
(assert
 (=>
  (fuel_bool fuel%vstd!std_specs.convert.impl&%8.obeys_from_spec.)
  (= (vstd!std_specs.convert.FromSpec.obeys_from_spec.? $ (UINT 64) $ (UINT 8)) (B true))
))

;; Function-Axioms vstd::std_specs::convert::impl&%8::from_spec
(assert
 (fuel_bool_default fuel%vstd!std_specs.convert.impl&%8.from_spec.)
)
(assert
 (=>
  (fuel_bool fuel%vstd!std_specs.convert.impl&%8.from_spec.)
  (forall ((v! Poly)) (!
    (= (vstd!std_specs.convert.FromSpec.from_spec.? $ (UINT 64) $ (UINT 8) v!) (I (uClip
       64 (%I v!)
    )))
    :pattern ((vstd!std_specs.convert.FromSpec.from_spec.? $ (UINT 64) $ (UINT 8) v!))
    :qid internal_vstd!std_specs.convert.impl&__8.from_spec.?_definition
    :skolemid skolem_internal_vstd!std_specs.convert.impl&__8.from_spec.?_definition
))))

;; Function-Axioms vstd::std_specs::convert::impl&%9::obeys_from_spec
(assert
 (fuel_bool_default fuel%vstd!std_specs.convert.impl&%9.obeys_from_spec.)
)
(assert
 (=>
  (fuel_bool fuel%vstd!std_specs.convert.impl&%9.obeys_from_spec.)
  (= (vstd!std_specs.convert.FromSpec.obeys_from_spec.? $ USIZE $ (UINT 8)) (B true))
))

;; Function-Axioms vstd::std_specs::convert::impl&%9::from_spec
(assert
 (fuel_bool_default fuel%vstd!std_specs.convert.impl&%9.from_spec.)
)
(assert
 (=>
  (fuel_bool fuel%vstd!std_specs.convert.impl&%9.from_spec.)
  (forall ((v! Poly)) (!
    (= (vstd!std_specs.convert.FromSpec.from_spec.? $ USIZE $ (UINT 8) v!) (I (uClip SZ
       (%I v!)
    )))
    :pattern ((vstd!std_specs.convert.FromSpec.from_spec.? $ USIZE $ (UINT 8) v!))
    :qid internal_vstd!std_specs.convert.impl&__9.from_spec.?_definition
    :skolemid skolem_internal_vstd!std_specs.convert.impl&__9.from_spec.?_definition
))))

;; Function-Axioms vstd::std_specs::convert::impl&%10::obeys_from_spec
(assert
 (fuel_bool_default fuel%vstd!std_specs.convert.impl&%10.obeys_from_spec.)
)
(assert
 (=>
  (fuel_bool fuel%vstd!std_specs.convert.impl&%10.obeys_from_spec.)
  (= (vstd!std_specs.convert.FromSpec.obeys_from_spec.? $ (UINT 128) $ (UINT 8)) (B true))
))

;; Function-Axioms vstd::std_specs::convert::impl&%10::from_spec
(assert
 (fuel_bool_default fuel%vstd!std_specs.convert.impl&%10.from_spec.)
)
(assert
 (=>
  (fuel_bool fuel%vstd!std_specs.convert.impl&%10.from_spec.)
  (forall ((v! Poly)) (!
    (= (vstd!std_specs.convert.FromSpec.from_spec.? $ (UINT 128) $ (UINT 8) v!) (I (uClip
       128 (%I v!)
    )))
    :pattern ((vstd!std_specs.convert.FromSpec.from_spec.? $ (UINT 128) $ (UINT 8) v!))
    :qid internal_vstd!std_specs.convert.impl&__10.from_spec.?_definition
    :skolemid skolem_internal_vstd!std_specs.convert.impl&__10.from_spec.?_definition
))))

;; Function-Axioms vstd::std_specs::convert::impl&%11::obeys_from_spec
(assert
 (fuel_bool_default fuel%vstd!std_specs.convert.impl&%11.obeys_from_spec.)
)
(assert
 (=>
  (fuel_bool fuel%vstd!std_specs.convert.impl&%11.obeys_from_spec.)
  (= (vstd!std_specs.convert.FromSpec.obeys_from_spec.? $ (UINT 32) $ (UINT 16)) (B true))
))

;; Function-Axioms vstd::std_specs::convert::impl&%11::from_spec
(assert
 (fuel_bool_default fuel%vstd!std_specs.convert.impl&%11.from_spec.)
)
(assert
 (=>
  (fuel_bool fuel%vstd!std_specs.convert.impl&%11.from_spec.)
  (forall ((v! Poly)) (!
    (= (vstd!std_specs.convert.FromSpec.from_spec.? $ (UINT 32) $ (UINT 16) v!) (I (uClip
       32 (%I v!)
    )))
    :pattern ((vstd!std_specs.convert.FromSpec.from_spec.? $ (UINT 32) $ (UINT 16) v!))
    :qid internal_vstd!std_specs.convert.impl&__11.from_spec.?_definition
    :skolemid skolem_internal_vstd!std_specs.convert.impl&__11.from_spec.?_definition
))))

;; Function-Axioms vstd::std_specs::convert::impl&%12::obeys_from_spec
(assert
 (fuel_bool_default fuel%vstd!std_specs.convert.impl&%12.obeys_from_spec.)
)
(assert
 (=>
  (fuel_bool fuel%vstd!std_specs.convert.impl&%12.obeys_from_spec.)
  (= (vstd!std_specs.convert.FromSpec.obeys_from_spec.? $ (UINT 64) $ (UINT 16)) (B true))
))

;; Function-Axioms vstd::std_specs::convert::impl&%12::from_spec
(assert
 (fuel_bool_default fuel%vstd!std_specs.convert.impl&%12.from_spec.)
)
(assert
 (=>
  (fuel_bool fuel%vstd!std_specs.convert.impl&%12.from_spec.)
  (forall ((v! Poly)) (!
    (= (vstd!std_specs.convert.FromSpec.from_spec.? $ (UINT 64) $ (UINT 16) v!) (I (uClip
       64 (%I v!)
    )))
    :pattern ((vstd!std_specs.convert.FromSpec.from_spec.? $ (UINT 64) $ (UINT 16) v!))
    :qid internal_vstd!std_specs.convert.impl&__12.from_spec.?_definition
    :skolemid skolem_internal_vstd!std_specs.convert.impl&__12.from_spec.?_definition
))))

;; Function-Axioms vstd::std_specs::convert::impl&%13::obeys_from_spec
(assert
 (fuel_bool_default fuel%vstd!std_specs.convert.impl&%13.obeys_from_spec.)
)
(assert
 (=>
  (fuel_bool fuel%vstd!std_specs.convert.impl&%13.obeys_from_spec.)
  (= (vstd!std_specs.convert.FromSpec.obeys_from_spec.? $ USIZE $ (UINT 16)) (B true))
))

;; Function-Axioms vstd::std_specs::convert::impl&%13::from_spec
(assert
 (fuel_bool_default fuel%vstd!std_specs.convert.impl&%13.from_spec.)
)
(assert
 (=>
  (fuel_bool fuel%vstd!std_specs.convert.impl&%13.from_spec.)
  (forall ((v! Poly)) (!
    (= (vstd!std_specs.convert.FromSpec.from_spec.? $ USIZE $ (UINT 16) v!) (I (uClip SZ
       (%I v!)
    )))
    :pattern ((vstd!std_specs.convert.FromSpec.from_spec.? $ USIZE $ (UINT 16) v!))
    :qid internal_vstd!std_specs.convert.impl&__13.from_spec.?_definition
    :skolemid skolem_internal_vstd!std_specs.convert.impl&__13.from_spec.?_definition
))))

;; Function-Axioms vstd::std_specs::convert::impl&%14::obeys_from_spec
(assert
 (fuel_bool_default fuel%vstd!std_specs.convert.impl&%14.obeys_from_spec.)
)
(assert
 (=>
  (fuel_bool fuel%vstd!std_specs.convert.impl&%14.obeys_from_spec.)
  (= (vstd!std_specs.convert.FromSpec.obeys_from_spec.? $ (UINT 128) $ (UINT 16)) (B
    true
))))

;; Function-Axioms vstd::std_specs::convert::impl&%14::from_spec
(assert
 (fuel_bool_default fuel%vstd!std_specs.convert.impl&%14.from_spec.)
)
(assert
 (=>
  (fuel_bool fuel%vstd!std_specs.convert.impl&%14.from_spec.)
  (forall ((v! Poly)) (!
    (= (vstd!std_specs.convert.FromSpec.from_spec.? $ (UINT 128) $ (UINT 16) v!) (I (uClip
       128 (%I v!)
    )))
    :pattern ((vstd!std_specs.convert.FromSpec.from_spec.? $ (UINT 128) $ (UINT 16) v!))
    :qid internal_vstd!std_specs.convert.impl&__14.from_spec.?_definition
    :skolemid skolem_internal_vstd!std_specs.convert.impl&__14.from_spec.?_definition
))))

;; Function-Axioms vstd::std_specs::convert::impl&%15::obeys_from_spec
(assert
 (fuel_bool_default fuel%vstd!std_specs.convert.impl&%15.obeys_from_spec.)
)
(assert
 (=>
  (fuel_bool fuel%vstd!std_specs.convert.impl&%15.obeys_from_spec.)
  (= (vstd!std_specs.convert.FromSpec.obeys_from_spec.? $ (UINT 64) $ (UINT 32)) (B true))
))

;; Function-Axioms vstd::std_specs::convert::impl&%15::from_spec
(assert
 (fuel_bool_default fuel%vstd!std_specs.convert.impl&%15.from_spec.)
)
(assert
 (=>
  (fuel_bool fuel%vstd!std_specs.convert.impl&%15.from_spec.)
  (forall ((v! Poly)) (!
    (= (vstd!std_specs.convert.FromSpec.from_spec.? $ (UINT 64) $ (UINT 32) v!) (I (uClip
       64 (%I v!)
    )))
    :pattern ((vstd!std_specs.convert.FromSpec.from_spec.? $ (UINT 64) $ (UINT 32) v!))
    :qid internal_vstd!std_specs.convert.impl&__15.from_spec.?_definition
    :skolemid skolem_internal_vstd!std_specs.convert.impl&__15.from_spec.?_definition
))))

;; Function-Axioms vstd::std_specs::convert::impl&%16::obeys_from_spec
(assert
 (fuel_bool_default fuel%vstd!std_specs.convert.impl&%16.obeys_from_spec.)
)
(assert
 (=>
  (fuel_bool fuel%vstd!std_specs.convert.impl&%16.obeys_from_spec.)
  (= (vstd!std_specs.convert.FromSpec.obeys_from_spec.? $ (UINT 128) $ (UINT 32)) (B
    true
))))

;; Function-Axioms vstd::std_specs::convert::impl&%16::from_spec
(assert
 (fuel_bool_default fuel%vstd!std_specs.convert.impl&%16.from_spec.)
)
(assert
 (=>
  (fuel_bool fuel%vstd!std_specs.convert.impl&%16.from_spec.)
  (forall ((v! Poly)) (!
    (= (vstd!std_specs.convert.FromSpec.from_spec.? $ (UINT 128) $ (UINT 32) v!) (I (uClip
       128 (%I v!)
    )))
    :pattern ((vstd!std_specs.convert.FromSpec.from_spec.? $ (UINT 128) $ (UINT 32) v!))
    :qid internal_vstd!std_specs.convert.impl&__16.from_spec.?_definition
    :skolemid skolem_internal_vstd!std_specs.convert.impl&__16.from_spec.?_definition
))))

;; Function-Axioms vstd::std_specs::convert::impl&%17::obeys_from_spec
(assert
 (fuel_bool_default fuel%vstd!std_specs.convert.impl&%17.obeys_from_spec.)
)
(assert
 (=>
  (fuel_bool fuel%vstd!std_specs.convert.impl&%17.obeys_from_spec.)
  (= (vstd!std_specs.convert.FromSpec.obeys_from_spec.? $ (UINT 128) $ (UINT 64)) (B
    true
))))

;; Function-Axioms vstd::std_specs::convert::impl&%17::from_spec
(assert
 (fuel_bool_default fuel%vstd!std_specs.convert.impl&%17.from_spec.)
)
(assert
 (=>
  (fuel_bool fuel%vstd!std_specs.convert.impl&%17.from_spec.)
  (forall ((v! Poly)) (!
    (= (vstd!std_specs.convert.FromSpec.from_spec.? $ (UINT 128) $ (UINT 64) v!) (I (uClip
       128 (%I v!)
    )))
    :pattern ((vstd!std_specs.convert.FromSpec.from_spec.? $ (UINT 128) $ (UINT 64) v!))
    :qid internal_vstd!std_specs.convert.impl&__17.from_spec.?_definition
    :skolemid skolem_internal_vstd!std_specs.convert.impl&__17.from_spec.?_definition
))))

;; Function-Axioms vstd::std_specs::convert::impl&%18::obeys_from_spec
(assert
 (fuel_bool_default fuel%vstd!std_specs.convert.impl&%18.obeys_from_spec.)
)
(assert
 (=>
  (fuel_bool fuel%vstd!std_specs.convert.impl&%18.obeys_from_spec.)
  (= (vstd!std_specs.convert.FromSpec.obeys_from_spec.? $ (SINT 16) $ (SINT 8)) (B true))
))

;; Function-Axioms vstd::std_specs::convert::impl&%18::from_spec
(assert
 (fuel_bool_default fuel%vstd!std_specs.convert.impl&%18.from_spec.)
)
(assert
 (=>
  (fuel_bool fuel%vstd!std_specs.convert.impl&%18.from_spec.)
  (forall ((v! Poly)) (!
    (= (vstd!std_specs.convert.FromSpec.from_spec.? $ (SINT 16) $ (SINT 8) v!) (I (iClip
       16 (%I v!)
    )))
    :pattern ((vstd!std_specs.convert.FromSpec.from_spec.? $ (SINT 16) $ (SINT 8) v!))
    :qid internal_vstd!std_specs.convert.impl&__18.from_spec.?_definition
    :skolemid skolem_internal_vstd!std_specs.convert.impl&__18.from_spec.?_definition
))))

;; Function-Axioms vstd::std_specs::convert::impl&%19::obeys_from_spec
(assert
 (fuel_bool_default fuel%vstd!std_specs.convert.impl&%19.obeys_from_spec.)
)
(assert
 (=>
  (fuel_bool fuel%vstd!std_specs.convert.impl&%19.obeys_from_spec.)
  (= (vstd!std_specs.convert.FromSpec.obeys_from_spec.? $ (SINT 32) $ (SINT 8)) (B true))
))

;; Function-Axioms vstd::std_specs::convert::impl&%19::from_spec
(assert
 (fuel_bool_default fuel%vstd!std_specs.convert.impl&%19.from_spec.)
)
(assert
 (=>
  (fuel_bool fuel%vstd!std_specs.convert.impl&%19.from_spec.)
  (forall ((v! Poly)) (!
    (= (vstd!std_specs.convert.FromSpec.from_spec.? $ (SINT 32) $ (SINT 8) v!) (I (iClip
       32 (%I v!)
    )))
    :pattern ((vstd!std_specs.convert.FromSpec.from_spec.? $ (SINT 32) $ (SINT 8) v!))
    :qid internal_vstd!std_specs.convert.impl&__19.from_spec.?_definition
    :skolemid skolem_internal_vstd!std_specs.convert.impl&__19.from_spec.?_definition
))))

;; Function-Axioms vstd::std_specs::convert::impl&%20::obeys_from_spec
(assert
 (fuel_bool_default fuel%vstd!std_specs.convert.impl&%20.obeys_from_spec.)
)
(assert
 (=>
  (fuel_bool fuel%vstd!std_specs.convert.impl&%20.obeys_from_spec.)
  (= (vstd!std_specs.convert.FromSpec.obeys_from_spec.? $ (SINT 64) $ (SINT 8)) (B true))
))

;; Function-Axioms vstd::std_specs::convert::impl&%20::from_spec
(assert
 (fuel_bool_default fuel%vstd!std_specs.convert.impl&%20.from_spec.)
)
(assert
 (=>
  (fuel_bool fuel%vstd!std_specs.convert.impl&%20.from_spec.)
  (forall ((v! Poly)) (!
    (= (vstd!std_specs.convert.FromSpec.from_spec.? $ (SINT 64) $ (SINT 8) v!) (I (iClip
       64 (%I v!)
    )))
    :pattern ((vstd!std_specs.convert.FromSpec.from_spec.? $ (SINT 64) $ (SINT 8) v!))
    :qid internal_vstd!std_specs.convert.impl&__20.from_spec.?_definition
    :skolemid skolem_internal_vstd!std_specs.convert.impl&__20.from_spec.?_definition
))))

;; Function-Axioms vstd::std_specs::convert::impl&%21::obeys_from_spec
(assert
 (fuel_bool_default fuel%vstd!std_specs.convert.impl&%21.obeys_from_spec.)
)
(assert
 (=>
  (fuel_bool fuel%vstd!std_specs.convert.impl&%21.obeys_from_spec.)
  (= (vstd!std_specs.convert.FromSpec.obeys_from_spec.? $ ISIZE $ (SINT 8)) (B true))
))

;; Function-Axioms vstd::std_specs::convert::impl&%21::from_spec
(assert
 (fuel_bool_default fuel%vstd!std_specs.convert.impl&%21.from_spec.)
)
(assert
 (=>
  (fuel_bool fuel%vstd!std_specs.convert.impl&%21.from_spec.)
  (forall ((v! Poly)) (!
    (= (vstd!std_specs.convert.FromSpec.from_spec.? $ ISIZE $ (SINT 8) v!) (I (iClip SZ
       (%I v!)
    )))
    :pattern ((vstd!std_specs.convert.FromSpec.from_spec.? $ ISIZE $ (SINT 8) v!))
    :qid internal_vstd!std_specs.convert.impl&__21.from_spec.?_definition
    :skolemid skolem_internal_vstd!std_specs.convert.impl&__21.from_spec.?_definition
))))

;; Function-Axioms vstd::std_specs::convert::impl&%22::obeys_from_spec
(assert
 (fuel_bool_default fuel%vstd!std_specs.convert.impl&%22.obeys_from_spec.)
)
(assert
 (=>
  (fuel_bool fuel%vstd!std_specs.convert.impl&%22.obeys_from_spec.)
  (= (vstd!std_specs.convert.FromSpec.obeys_from_spec.? $ (SINT 128) $ (SINT 8)) (B true))
))

;; Function-Axioms vstd::std_specs::convert::impl&%22::from_spec
(assert
 (fuel_bool_default fuel%vstd!std_specs.convert.impl&%22.from_spec.)
)
(assert
 (=>
  (fuel_bool fuel%vstd!std_specs.convert.impl&%22.from_spec.)
  (forall ((v! Poly)) (!
    (= (vstd!std_specs.convert.FromSpec.from_spec.? $ (SINT 128) $ (SINT 8) v!) (I (iClip
       128 (%I v!)
    )))
    :pattern ((vstd!std_specs.convert.FromSpec.from_spec.? $ (SINT 128) $ (SINT 8) v!))
    :qid internal_vstd!std_specs.convert.impl&__22.from_spec.?_definition
    :skolemid skolem_internal_vstd!std_specs.convert.impl&__22.from_spec.?_definition
))))

;; Function-Axioms vstd::std_specs::convert::impl&%23::obeys_from_spec
(assert
 (fuel_bool_default fuel%vstd!std_specs.convert.impl&%23.obeys_from_spec.)
)
(assert
 (=>
  (fuel_bool fuel%vstd!std_specs.convert.impl&%23.obeys_from_spec.)
  (= (vstd!std_specs.convert.FromSpec.obeys_from_spec.? $ (SINT 32) $ (SINT 16)) (B true))
))

;; Function-Axioms vstd::std_specs::convert::impl&%23::from_spec
(assert
 (fuel_bool_default fuel%vstd!std_specs.convert.impl&%23.from_spec.)
)
(assert
 (=>
  (fuel_bool fuel%vstd!std_specs.convert.impl&%23.from_spec.)
  (forall ((v! Poly)) (!
    (= (vstd!std_specs.convert.FromSpec.from_spec.? $ (SINT 32) $ (SINT 16) v!) (I (iClip
       32 (%I v!)
    )))
    :pattern ((vstd!std_specs.convert.FromSpec.from_spec.? $ (SINT 32) $ (SINT 16) v!))
    :qid internal_vstd!std_specs.convert.impl&__23.from_spec.?_definition
    :skolemid skolem_internal_vstd!std_specs.convert.impl&__23.from_spec.?_definition
))))

;; Function-Axioms vstd::std_specs::convert::impl&%24::obeys_from_spec
(assert
 (fuel_bool_default fuel%vstd!std_specs.convert.impl&%24.obeys_from_spec.)
)
(assert
 (=>
  (fuel_bool fuel%vstd!std_specs.convert.impl&%24.obeys_from_spec.)
  (= (vstd!std_specs.convert.FromSpec.obeys_from_spec.? $ (SINT 64) $ (SINT 16)) (B true))
))

;; Function-Axioms vstd::std_specs::convert::impl&%24::from_spec
(assert
 (fuel_bool_default fuel%vstd!std_specs.convert.impl&%24.from_spec.)
)
(assert
 (=>
  (fuel_bool fuel%vstd!std_specs.convert.impl&%24.from_spec.)
  (forall ((v! Poly)) (!
    (= (vstd!std_specs.convert.FromSpec.from_spec.? $ (SINT 64) $ (SINT 16) v!) (I (iClip
       64 (%I v!)
    )))
    :pattern ((vstd!std_specs.convert.FromSpec.from_spec.? $ (SINT 64) $ (SINT 16) v!))
    :qid internal_vstd!std_specs.convert.impl&__24.from_spec.?_definition
    :skolemid skolem_internal_vstd!std_specs.convert.impl&__24.from_spec.?_definition
))))

;; Function-Axioms vstd::std_specs::convert::impl&%25::obeys_from_spec
(assert
 (fuel_bool_default fuel%vstd!std_specs.convert.impl&%25.obeys_from_spec.)
)
(assert
 (=>
  (fuel_bool fuel%vstd!std_specs.convert.impl&%25.obeys_from_spec.)
  (= (vstd!std_specs.convert.FromSpec.obeys_from_spec.? $ ISIZE $ (SINT 16)) (B true))
))

;; Function-Axioms vstd::std_specs::convert::impl&%25::from_spec
(assert
 (fuel_bool_default fuel%vstd!std_specs.convert.impl&%25.from_spec.)
)
(assert
 (=>
  (fuel_bool fuel%vstd!std_specs.convert.impl&%25.from_spec.)
  (forall ((v! Poly)) (!
    (= (vstd!std_specs.convert.FromSpec.from_spec.? $ ISIZE $ (SINT 16) v!) (I (iClip SZ
       (%I v!)
    )))
    :pattern ((vstd!std_specs.convert.FromSpec.from_spec.? $ ISIZE $ (SINT 16) v!))
    :qid internal_vstd!std_specs.convert.impl&__25.from_spec.?_definition
    :skolemid skolem_internal_vstd!std_specs.convert.impl&__25.from_spec.?_definition
))))

;; Function-Axioms vstd::std_specs::convert::impl&%26::obeys_from_spec
(assert
 (fuel_bool_default fuel%vstd!std_specs.convert.impl&%26.obeys_from_spec.)
)
(assert
 (=>
  (fuel_bool fuel%vstd!std_specs.convert.impl&%26.obeys_from_spec.)
  (= (vstd!std_specs.convert.FromSpec.obeys_from_spec.? $ (SINT 128) $ (SINT 16)) (B
    true
))))

;; Function-Axioms vstd::std_specs::convert::impl&%26::from_spec
(assert
 (fuel_bool_default fuel%vstd!std_specs.convert.impl&%26.from_spec.)
)
(assert
 (=>
  (fuel_bool fuel%vstd!std_specs.convert.impl&%26.from_spec.)
  (forall ((v! Poly)) (!
    (= (vstd!std_specs.convert.FromSpec.from_spec.? $ (SINT 128) $ (SINT 16) v!) (I (iClip
       128 (%I v!)
    )))
    :pattern ((vstd!std_specs.convert.FromSpec.from_spec.? $ (SINT 128) $ (SINT 16) v!))
    :qid internal_vstd!std_specs.convert.impl&__26.from_spec.?_definition
    :skolemid skolem_internal_vstd!std_specs.convert.impl&__26.from_spec.?_definition
))))

;; Function-Axioms vstd::std_specs::convert::impl&%27::obeys_from_spec
(assert
 (fuel_bool_default fuel%vstd!std_specs.convert.impl&%27.obeys_from_spec.)
)
(assert
 (=>
  (fuel_bool fuel%vstd!std_specs.convert.impl&%27.obeys_from_spec.)
  (= (vstd!std_specs.convert.FromSpec.obeys_from_spec.? $ (SINT 64) $ (SINT 32)) (B true))
))

;; Function-Axioms vstd::std_specs::convert::impl&%27::from_spec
(assert
 (fuel_bool_default fuel%vstd!std_specs.convert.impl&%27.from_spec.)
)
(assert
 (=>
  (fuel_bool fuel%vstd!std_specs.convert.impl&%27.from_spec.)
  (forall ((v! Poly)) (!
    (= (vstd!std_specs.convert.FromSpec.from_spec.? $ (SINT 64) $ (SINT 32) v!) (I (iClip
       64 (%I v!)
    )))
    :pattern ((vstd!std_specs.convert.FromSpec.from_spec.? $ (SINT 64) $ (SINT 32) v!))
    :qid internal_vstd!std_specs.convert.impl&__27.from_spec.?_definition
    :skolemid skolem_internal_vstd!std_specs.convert.impl&__27.from_spec.?_definition
))))

;; Function-Axioms vstd::std_specs::convert::impl&%28::obeys_from_spec
(assert
 (fuel_bool_default fuel%vstd!std_specs.convert.impl&%28.obeys_from_spec.)
)
(assert
 (=>
  (fuel_bool fuel%vstd!std_specs.convert.impl&%28.obeys_from_spec.)
  (= (vstd!std_specs.convert.FromSpec.obeys_from_spec.? $ (SINT 128) $ (SINT 32)) (B
    true
))))

;; Function-Axioms vstd::std_specs::convert::impl&%28::from_spec
(assert
 (fuel_bool_default fuel%vstd!std_specs.convert.impl&%28.from_spec.)
)
(assert
 (=>
  (fuel_bool fuel%vstd!std_specs.convert.impl&%28.from_spec.)
  (forall ((v! Poly)) (!
    (= (vstd!std_specs.convert.FromSpec.from_spec.? $ (SINT 128) $ (SINT 32) v!) (I (iClip
       128 (%I v!)
    )))
    :pattern ((vstd!std_specs.convert.FromSpec.from_spec.? $ (SINT 128) $ (SINT 32) v!))
    :qid internal_vstd!std_specs.convert.impl&__28.from_spec.?_definition
    :skolemid skolem_internal_vstd!std_specs.convert.impl&__28.from_spec.?_definition
))))

;; Function-Axioms vstd::std_specs::convert::impl&%29::obeys_from_spec
(assert
 (fuel_bool_default fuel%vstd!std_specs.convert.impl&%29.obeys_from_spec.)
)
(assert
 (=>
  (fuel_bool fuel%vstd!std_specs.convert.impl&%29.obeys_from_spec.)
  (= (vstd!std_specs.convert.FromSpec.obeys_from_spec.? $ (SINT 128) $ (SINT 64)) (B
    true
))))

;; Function-Axioms vstd::std_specs::convert::impl&%29::from_spec
(assert
 (fuel_bool_default fuel%vstd!std_specs.convert.impl&%29.from_spec.)
)
(assert
 (=>
  (fuel_bool fuel%vstd!std_specs.convert.impl&%29.from_spec.)
  (forall ((v! Poly)) (!
    (= (vstd!std_specs.convert.FromSpec.from_spec.? $ (SINT 128) $ (SINT 64) v!) (I (iClip
       128 (%I v!)
    )))
    :pattern ((vstd!std_specs.convert.FromSpec.from_spec.? $ (SINT 128) $ (SINT 64) v!))
    :qid internal_vstd!std_specs.convert.impl&__29.from_spec.?_definition
    :skolemid skolem_internal_vstd!std_specs.convert.impl&__29.from_spec.?_definition
))))

;; Function-Axioms vstd::std_specs::range::bound_as_ref
(assert
 (fuel_bool_default fuel%vstd!std_specs.range.bound_as_ref.)
)
(assert
 (=>
  (fuel_bool fuel%vstd!std_specs.range.bound_as_ref.)
  (forall ((T&. Dcr) (T& Type) (b! Poly)) (!
    (= (vstd!std_specs.range.bound_as_ref.? T&. T& b!) (ite
      (is-core!ops.range.Bound./Included (%Poly%core!ops.range.Bound. b!))
      (let
       ((start$ (core!ops.range.Bound./Included/0 T&. T& (%Poly%core!ops.range.Bound. b!))))
       (core!ops.range.Bound./Included start$)
      )
      (ite
       (is-core!ops.range.Bound./Excluded (%Poly%core!ops.range.Bound. b!))
       (let
        ((start$ (core!ops.range.Bound./Excluded/0 T&. T& (%Poly%core!ops.range.Bound. b!))))
        (core!ops.range.Bound./Excluded start$)
       )
       core!ops.range.Bound./Unbounded
    )))
    :pattern ((vstd!std_specs.range.bound_as_ref.? T&. T& b!))
    :qid internal_vstd!std_specs.range.bound_as_ref.?_definition
    :skolemid skolem_internal_vstd!std_specs.range.bound_as_ref.?_definition
))))
(assert
 (forall ((T&. Dcr) (T& Type) (b! Poly)) (!
   (=>
    (has_type b! (TYPE%core!ops.range.Bound. T&. T&))
    (has_type (Poly%core!ops.range.Bound. (vstd!std_specs.range.bound_as_ref.? T&. T& b!))
     (TYPE%core!ops.range.Bound. (REF T&.) T&)
   ))
   :pattern ((vstd!std_specs.range.bound_as_ref.? T&. T& b!))
   :qid internal_vstd!std_specs.range.bound_as_ref.?_pre_post_definition
   :skolemid skolem_internal_vstd!std_specs.range.bound_as_ref.?_pre_post_definition
)))

;; Function-Axioms vstd::std_specs::range::impl&%11::spec_start_bound
(assert
 (fuel_bool_default fuel%vstd!std_specs.range.impl&%11.spec_start_bound.)
)
(assert
 (=>
  (fuel_bool fuel%vstd!std_specs.range.impl&%11.spec_start_bound.)
  (forall ((T&. Dcr) (T& Type) (self! Poly)) (!
    (=>
     (sized T&.)
     (= (vstd!std_specs.range.RangeBoundsSpec.spec_start_bound.? (DST $) (TYPE%tuple%2. $
        (TYPE%core!ops.range.Bound. T&. T&) $ (TYPE%core!ops.range.Bound. T&. T&)
       ) T&. T& self!
      ) (Poly%core!ops.range.Bound. (vstd!std_specs.range.bound_as_ref.? T&. T& (tuple%2./tuple%2/0
         (%Poly%tuple%2. self!)
    )))))
    :pattern ((vstd!std_specs.range.RangeBoundsSpec.spec_start_bound.? (DST $) (TYPE%tuple%2.
       $ (TYPE%core!ops.range.Bound. T&. T&) $ (TYPE%core!ops.range.Bound. T&. T&)
      ) T&. T& self!
    ))
    :qid internal_vstd!std_specs.range.impl&__11.spec_start_bound.?_definition
    :skolemid skolem_internal_vstd!std_specs.range.impl&__11.spec_start_bound.?_definition
))))

;; Function-Axioms vstd::std_specs::range::impl&%11::spec_end_bound
(assert
 (fuel_bool_default fuel%vstd!std_specs.range.impl&%11.spec_end_bound.)
)
(assert
 (=>
  (fuel_bool fuel%vstd!std_specs.range.impl&%11.spec_end_bound.)
  (forall ((T&. Dcr) (T& Type) (self! Poly)) (!
    (=>
     (sized T&.)
     (= (vstd!std_specs.range.RangeBoundsSpec.spec_end_bound.? (DST $) (TYPE%tuple%2. $ (
         TYPE%core!ops.range.Bound. T&. T&
        ) $ (TYPE%core!ops.range.Bound. T&. T&)
       ) T&. T& self!
      ) (Poly%core!ops.range.Bound. (vstd!std_specs.range.bound_as_ref.? T&. T& (tuple%2./tuple%2/1
         (%Poly%tuple%2. self!)
    )))))
    :pattern ((vstd!std_specs.range.RangeBoundsSpec.spec_end_bound.? (DST $) (TYPE%tuple%2.
       $ (TYPE%core!ops.range.Bound. T&. T&) $ (TYPE%core!ops.range.Bound. T&. T&)
      ) T&. T& self!
    ))
    :qid internal_vstd!std_specs.range.impl&__11.spec_end_bound.?_definition
    :skolemid skolem_internal_vstd!std_specs.range.impl&__11.spec_end_bound.?_definition
))))

;; Function-Axioms vstd::std_specs::range::impl&%12::spec_start_bound
(assert
 (fuel_bool_default fuel%vstd!std_specs.range.impl&%12.spec_start_bound.)
)
(assert
 (=>
  (fuel_bool fuel%vstd!std_specs.range.impl&%12.spec_start_bound.)
  (forall ((T&. Dcr) (T& Type) (self! Poly)) (!
    (= (vstd!std_specs.range.RangeBoundsSpec.spec_start_bound.? (DST $) (TYPE%tuple%2. $
       (TYPE%core!ops.range.Bound. (REF T&.) T&) $ (TYPE%core!ops.range.Bound. (REF T&.)
        T&
       )
      ) T&. T& self!
     ) (tuple%2./tuple%2/0 (%Poly%tuple%2. self!))
    )
    :pattern ((vstd!std_specs.range.RangeBoundsSpec.spec_start_bound.? (DST $) (TYPE%tuple%2.
       $ (TYPE%core!ops.range.Bound. (REF T&.) T&) $ (TYPE%core!ops.range.Bound. (REF T&.)
        T&
       )
      ) T&. T& self!
    ))
    :qid internal_vstd!std_specs.range.impl&__12.spec_start_bound.?_definition
    :skolemid skolem_internal_vstd!std_specs.range.impl&__12.spec_start_bound.?_definition
))))

;; Function-Axioms vstd::std_specs::range::impl&%12::spec_end_bound
(assert
 (fuel_bool_default fuel%vstd!std_specs.range.impl&%12.spec_end_bound.)
)
(assert
 (=>
  (fuel_bool fuel%vstd!std_specs.range.impl&%12.spec_end_bound.)
  (forall ((T&. Dcr) (T& Type) (self! Poly)) (!
    (= (vstd!std_specs.range.RangeBoundsSpec.spec_end_bound.? (DST $) (TYPE%tuple%2. $ (
        TYPE%core!ops.range.Bound. (REF T&.) T&
       ) $ (TYPE%core!ops.range.Bound. (REF T&.) T&)
      ) T&. T& self!
     ) (tuple%2./tuple%2/1 (%Poly%tuple%2. self!))
    )
    :pattern ((vstd!std_specs.range.RangeBoundsSpec.spec_end_bound.? (DST $) (TYPE%tuple%2.
       $ (TYPE%core!ops.range.Bound. (REF T&.) T&) $ (TYPE%core!ops.range.Bound. (REF T&.)
        T&
       )
      ) T&. T& self!
    ))
    :qid internal_vstd!std_specs.range.impl&__12.spec_end_bound.?_definition
    :skolemid skolem_internal_vstd!std_specs.range.impl&__12.spec_end_bound.?_definition
))))

;; Function-Axioms vstd::std_specs::range::slice_range_start
(assert
 (fuel_bool_default fuel%vstd!std_specs.range.slice_range_start.)
)
(assert
 (=>
  (fuel_bool fuel%vstd!std_specs.range.slice_range_start.)
  (forall ((R&. Dcr) (R& Type) (range! Poly)) (!
    (= (vstd!std_specs.range.slice_range_start.? R&. R& range!) (let
      ((tmp%%$ (%Poly%core!ops.range.Bound. (vstd!std_specs.range.RangeBoundsSpec.spec_start_bound.?
          R&. R& $ USIZE range!
      ))))
      (ite
       (is-core!ops.range.Bound./Included tmp%%$)
       (let
        ((i$ (%I (core!ops.range.Bound./Included/0 (REF $) USIZE (%Poly%core!ops.range.Bound.
             (Poly%core!ops.range.Bound. tmp%%$)
        )))))
        i$
       )
       (ite
        (is-core!ops.range.Bound./Excluded tmp%%$)
        (let
         ((i$ (%I (core!ops.range.Bound./Excluded/0 (REF $) USIZE (%Poly%core!ops.range.Bound.
              (Poly%core!ops.range.Bound. tmp%%$)
         )))))
         (Add i$ 1)
        )
        0
    ))))
    :pattern ((vstd!std_specs.range.slice_range_start.? R&. R& range!))
    :qid internal_vstd!std_specs.range.slice_range_start.?_definition
    :skolemid skolem_internal_vstd!std_specs.range.slice_range_start.?_definition
))))

;; Function-Axioms vstd::std_specs::range::slice_range_end
(assert
 (fuel_bool_default fuel%vstd!std_specs.range.slice_range_end.)
)
(assert
 (=>
  (fuel_bool fuel%vstd!std_specs.range.slice_range_end.)
  (forall ((R&. Dcr) (R& Type) (range! Poly) (len! Poly)) (!
    (= (vstd!std_specs.range.slice_range_end.? R&. R& range! len!) (let
      ((tmp%%$ (%Poly%core!ops.range.Bound. (vstd!std_specs.range.RangeBoundsSpec.spec_end_bound.?
          R&. R& $ USIZE range!
      ))))
      (ite
       (is-core!ops.range.Bound./Included tmp%%$)
       (let
        ((i$ (%I (core!ops.range.Bound./Included/0 (REF $) USIZE (%Poly%core!ops.range.Bound.
             (Poly%core!ops.range.Bound. tmp%%$)
        )))))
        (Add i$ 1)
       )
       (ite
        (is-core!ops.range.Bound./Excluded tmp%%$)
        (let
         ((i$ (%I (core!ops.range.Bound./Excluded/0 (REF $) USIZE (%Poly%core!ops.range.Bound.
              (Poly%core!ops.range.Bound. tmp%%$)
         )))))
         i$
        )
        (%I len!)
    ))))
    :pattern ((vstd!std_specs.range.slice_range_end.? R&. R& range! len!))
    :qid internal_vstd!std_specs.range.slice_range_end.?_definition
    :skolemid skolem_internal_vstd!std_specs.range.slice_range_end.?_definition
))))

;; Function-Axioms vstd::std_specs::range::slice_range_valid
(assert
 (fuel_bool_default fuel%vstd!std_specs.range.slice_range_valid.)
)
(assert
 (=>
  (fuel_bool fuel%vstd!std_specs.range.slice_range_valid.)
  (forall ((R&. Dcr) (R& Type) (range! Poly) (len! Poly)) (!
    (= (vstd!std_specs.range.slice_range_valid.? R&. R& range! len!) (let
      ((tmp%%$ (vstd!std_specs.range.slice_range_start.? R&. R& range!)))
      (let
       ((tmp%%$1 (vstd!std_specs.range.slice_range_end.? R&. R& range! len!)))
       (let
        ((tmp%%$2 (%I len!)))
        (and
         (<= tmp%%$ tmp%%$1)
         (<= tmp%%$1 tmp%%$2)
    )))))
    :pattern ((vstd!std_specs.range.slice_range_valid.? R&. R& range! len!))
    :qid internal_vstd!std_specs.range.slice_range_valid.?_definition
    :skolemid skolem_internal_vstd!std_specs.range.slice_range_valid.?_definition
))))

;; Function-Axioms vstd::std_specs::slice::impl&%0::in_bounds
(assert
 (fuel_bool_default fuel%vstd!std_specs.slice.impl&%0.in_bounds.)
)
(assert
 (=>
  (fuel_bool fuel%vstd!std_specs.slice.impl&%0.in_bounds.)
  (forall ((T&. Dcr) (T& Type) (self! Poly) (slice! Poly)) (!
    (=>
     (sized T&.)
     (= (vstd!slice.SliceIndexSpec.in_bounds.? $ USIZE $slice (SLICE T&. T&) self! slice!)
      (B (< (%I self!) (vstd!seq.Seq.len.? T&. T& (vstd!view.View.view.? $slice (SLICE T&. T&)
          slice!
    ))))))
    :pattern ((vstd!slice.SliceIndexSpec.in_bounds.? $ USIZE $slice (SLICE T&. T&) self!
      slice!
    ))
    :qid internal_vstd!std_specs.slice.impl&__0.in_bounds.?_definition
    :skolemid skolem_internal_vstd!std_specs.slice.impl&__0.in_bounds.?_definition
))))

;; Function-Axioms vstd::std_specs::slice::impl&%0::index_postcondition
(assert
 (fuel_bool_default fuel%vstd!std_specs.slice.impl&%0.index_postcondition.)
)
(assert
 (=>
  (fuel_bool fuel%vstd!std_specs.slice.impl&%0.index_postcondition.)
  (forall ((T&. Dcr) (T& Type) (self! Poly) (slice! Poly) (r! Poly)) (!
    (=>
     (sized T&.)
     (= (vstd!slice.SliceIndexSpec.index_postcondition.? $ USIZE $slice (SLICE T&. T&) self!
       slice! r!
      ) (B (= r! (vstd!seq.Seq.index.? T&. T& (vstd!view.View.view.? $slice (SLICE T&. T&)
          slice!
         ) self!
    )))))
    :pattern ((vstd!slice.SliceIndexSpec.index_postcondition.? $ USIZE $slice (SLICE T&.
       T&
      ) self! slice! r!
    ))
    :qid internal_vstd!std_specs.slice.impl&__0.index_postcondition.?_definition
    :skolemid skolem_internal_vstd!std_specs.slice.impl&__0.index_postcondition.?_definition
))))

;; Trait-Impl-Axiom
(assert
 (forall ((T&. Dcr) (T& Type) (VERUS_SPEC__A&. Dcr) (VERUS_SPEC__A& Type)) (!
   (=>
    (tr_bound%core!slice.index.SliceIndex. VERUS_SPEC__A&. VERUS_SPEC__A& T&. T&)
    (tr_bound%vstd!slice.SliceIndexSpec. VERUS_SPEC__A&. VERUS_SPEC__A& T&. T&)
   )
   :pattern ((tr_bound%vstd!slice.SliceIndexSpec. VERUS_SPEC__A&. VERUS_SPEC__A& T&. T&))
   :qid internal_vstd__slice__impl&__4_trait_impl_definition
   :skolemid skolem_internal_vstd__slice__impl&__4_trait_impl_definition
)))

;; Function-Axioms vstd::std_specs::slice::impl&%7::index_req
(assert
 (fuel_bool_default fuel%vstd!std_specs.slice.impl&%7.index_req.)
)
(assert
 (=>
  (fuel_bool fuel%vstd!std_specs.slice.impl&%7.index_req.)
  (forall ((T&. Dcr) (T& Type) (I&. Dcr) (I& Type) (self! Poly) (index! Poly)) (!
    (=>
     (and
      (sized T&.)
      (sized I&.)
      (tr_bound%core!slice.index.SliceIndex. I&. I& $slice (SLICE T&. T&))
     )
     (= (vstd!std_specs.core.IndexSpec.index_req.? $slice (SLICE T&. T&) I&. I& self! index!)
      (vstd!slice.SliceIndexSpec.in_bounds.? I&. I& $slice (SLICE T&. T&) index! self!)
    ))
    :pattern ((vstd!std_specs.core.IndexSpec.index_req.? $slice (SLICE T&. T&) I&. I& self!
      index!
    ))
    :qid internal_vstd!std_specs.slice.impl&__7.index_req.?_definition
    :skolemid skolem_internal_vstd!std_specs.slice.impl&__7.index_req.?_definition
))))

;; Trait-Impl-Axiom
(assert
 (forall ((Idx&. Dcr) (Idx& Type) (VERUS_SPEC__A&. Dcr) (VERUS_SPEC__A& Type)) (!
   (=>
    (tr_bound%core!ops.index.Index. VERUS_SPEC__A&. VERUS_SPEC__A& Idx&. Idx&)
    (tr_bound%vstd!std_specs.core.IndexSpec. VERUS_SPEC__A&. VERUS_SPEC__A& Idx&. Idx&)
   )
   :pattern ((tr_bound%vstd!std_specs.core.IndexSpec. VERUS_SPEC__A&. VERUS_SPEC__A& Idx&.
     Idx&
   ))
   :qid internal_vstd__std_specs__core__impl&__0_trait_impl_definition
   :skolemid skolem_internal_vstd__std_specs__core__impl&__0_trait_impl_definition
)))

;; Function-Axioms vstd::std_specs::slice::impl&%8::index_req
(assert
 (fuel_bool_default fuel%vstd!std_specs.slice.impl&%8.index_req.)
)
(assert
 (=>
  (fuel_bool fuel%vstd!std_specs.slice.impl&%8.index_req.)
  (forall ((T&. Dcr) (T& Type) (I&. Dcr) (I& Type) (N&. Dcr) (N& Type) (self! Poly) (
     index! Poly
    )
   ) (!
    (=>
     (and
      (sized T&.)
      (sized I&.)
      (uInv SZ (const_int N&))
      (tr_bound%core!ops.index.Index. $slice (SLICE T&. T&) I&. I&)
     )
     (= (vstd!std_specs.core.IndexSpec.index_req.? $ (ARRAY T&. T& N&. N&) I&. I& self!
       index!
      ) (vstd!std_specs.core.IndexSpec.index_req.? $slice (SLICE T&. T&) I&. I& (vstd!array.spec_array_as_slice.?
        T&. T& N&. N& self!
       ) index!
    )))
    :pattern ((vstd!std_specs.core.IndexSpec.index_req.? $ (ARRAY T&. T& N&. N&) I&. I&
      self! index!
    ))
    :qid internal_vstd!std_specs.slice.impl&__8.index_req.?_definition
    :skolemid skolem_internal_vstd!std_specs.slice.impl&__8.index_req.?_definition
))))

;; Function-Axioms vstd::std_specs::nonzero::impl&%0::is_zero
(assert
 (fuel_bool_default fuel%vstd!std_specs.nonzero.impl&%0.is_zero.)
)
(assert
 (=>
  (fuel_bool fuel%vstd!std_specs.nonzero.impl&%0.is_zero.)
  (forall ((self! Poly)) (!
    (= (vstd!std_specs.nonzero.ZeroablePrimitiveSpec.is_zero.? $ CHAR self!) (B (= (%I self!)
       0
    )))
    :pattern ((vstd!std_specs.nonzero.ZeroablePrimitiveSpec.is_zero.? $ CHAR self!))
    :qid internal_vstd!std_specs.nonzero.impl&__0.is_zero.?_definition
    :skolemid skolem_internal_vstd!std_specs.nonzero.impl&__0.is_zero.?_definition
))))

;; Function-Axioms vstd::std_specs::nonzero::impl&%1::is_zero
(assert
 (fuel_bool_default fuel%vstd!std_specs.nonzero.impl&%1.is_zero.)
)
(assert
 (=>
  (fuel_bool fuel%vstd!std_specs.nonzero.impl&%1.is_zero.)
  (forall ((self! Poly)) (!
    (= (vstd!std_specs.nonzero.ZeroablePrimitiveSpec.is_zero.? $ (UINT 8) self!) (B (= (
        %I self!
       ) 0
    )))
    :pattern ((vstd!std_specs.nonzero.ZeroablePrimitiveSpec.is_zero.? $ (UINT 8) self!))
    :qid internal_vstd!std_specs.nonzero.impl&__1.is_zero.?_definition
    :skolemid skolem_internal_vstd!std_specs.nonzero.impl&__1.is_zero.?_definition
))))

;; Function-Axioms vstd::std_specs::nonzero::impl&%2::is_zero
(assert
 (fuel_bool_default fuel%vstd!std_specs.nonzero.impl&%2.is_zero.)
)
(assert
 (=>
  (fuel_bool fuel%vstd!std_specs.nonzero.impl&%2.is_zero.)
  (forall ((self! Poly)) (!
    (= (vstd!std_specs.nonzero.ZeroablePrimitiveSpec.is_zero.? $ (UINT 16) self!) (B (=
       (%I self!) 0
    )))
    :pattern ((vstd!std_specs.nonzero.ZeroablePrimitiveSpec.is_zero.? $ (UINT 16) self!))
    :qid internal_vstd!std_specs.nonzero.impl&__2.is_zero.?_definition
    :skolemid skolem_internal_vstd!std_specs.nonzero.impl&__2.is_zero.?_definition
))))

;; Function-Axioms vstd::std_specs::nonzero::impl&%3::is_zero
(assert
 (fuel_bool_default fuel%vstd!std_specs.nonzero.impl&%3.is_zero.)
)
(assert
 (=>
  (fuel_bool fuel%vstd!std_specs.nonzero.impl&%3.is_zero.)
  (forall ((self! Poly)) (!
    (= (vstd!std_specs.nonzero.ZeroablePrimitiveSpec.is_zero.? $ (UINT 32) self!) (B (=
       (%I self!) 0
    )))
    :pattern ((vstd!std_specs.nonzero.ZeroablePrimitiveSpec.is_zero.? $ (UINT 32) self!))
    :qid internal_vstd!std_specs.nonzero.impl&__3.is_zero.?_definition
    :skolemid skolem_internal_vstd!std_specs.nonzero.impl&__3.is_zero.?_definition
))))

;; Function-Axioms vstd::std_specs::nonzero::impl&%4::is_zero
(assert
 (fuel_bool_default fuel%vstd!std_specs.nonzero.impl&%4.is_zero.)
)
(assert
 (=>
  (fuel_bool fuel%vstd!std_specs.nonzero.impl&%4.is_zero.)
  (forall ((self! Poly)) (!
    (= (vstd!std_specs.nonzero.ZeroablePrimitiveSpec.is_zero.? $ (UINT 64) self!) (B (=
       (%I self!) 0
    )))
    :pattern ((vstd!std_specs.nonzero.ZeroablePrimitiveSpec.is_zero.? $ (UINT 64) self!))
    :qid internal_vstd!std_specs.nonzero.impl&__4.is_zero.?_definition
    :skolemid skolem_internal_vstd!std_specs.nonzero.impl&__4.is_zero.?_definition
))))

;; Function-Axioms vstd::std_specs::nonzero::impl&%5::is_zero
(assert
 (fuel_bool_default fuel%vstd!std_specs.nonzero.impl&%5.is_zero.)
)
(assert
 (=>
  (fuel_bool fuel%vstd!std_specs.nonzero.impl&%5.is_zero.)
  (forall ((self! Poly)) (!
    (= (vstd!std_specs.nonzero.ZeroablePrimitiveSpec.is_zero.? $ USIZE self!) (B (= (%I self!)
       0
    )))
    :pattern ((vstd!std_specs.nonzero.ZeroablePrimitiveSpec.is_zero.? $ USIZE self!))
    :qid internal_vstd!std_specs.nonzero.impl&__5.is_zero.?_definition
    :skolemid skolem_internal_vstd!std_specs.nonzero.impl&__5.is_zero.?_definition
))))

;; Function-Axioms vstd::std_specs::nonzero::impl&%6::is_zero
(assert
 (fuel_bool_default fuel%vstd!std_specs.nonzero.impl&%6.is_zero.)
)
(assert
 (=>
  (fuel_bool fuel%vstd!std_specs.nonzero.impl&%6.is_zero.)
  (forall ((self! Poly)) (!
    (= (vstd!std_specs.nonzero.ZeroablePrimitiveSpec.is_zero.? $ (SINT 8) self!) (B (= (
        %I self!
       ) 0
    )))
    :pattern ((vstd!std_specs.nonzero.ZeroablePrimitiveSpec.is_zero.? $ (SINT 8) self!))
    :qid internal_vstd!std_specs.nonzero.impl&__6.is_zero.?_definition
    :skolemid skolem_internal_vstd!std_specs.nonzero.impl&__6.is_zero.?_definition
))))

;; Function-Axioms vstd::std_specs::nonzero::impl&%7::is_zero
(assert
 (fuel_bool_default fuel%vstd!std_specs.nonzero.impl&%7.is_zero.)
)
(assert
 (=>
  (fuel_bool fuel%vstd!std_specs.nonzero.impl&%7.is_zero.)
  (forall ((self! Poly)) (!
    (= (vstd!std_specs.nonzero.ZeroablePrimitiveSpec.is_zero.? $ (SINT 16) self!) (B (=
       (%I self!) 0
    )))
    :pattern ((vstd!std_specs.nonzero.ZeroablePrimitiveSpec.is_zero.? $ (SINT 16) self!))
    :qid internal_vstd!std_specs.nonzero.impl&__7.is_zero.?_definition
    :skolemid skolem_internal_vstd!std_specs.nonzero.impl&__7.is_zero.?_definition
))))

;; Function-Axioms vstd::std_specs::nonzero::impl&%8::is_zero
(assert
 (fuel_bool_default fuel%vstd!std_specs.nonzero.impl&%8.is_zero.)
)
(assert
 (=>
  (fuel_bool fuel%vstd!std_specs.nonzero.impl&%8.is_zero.)
  (forall ((self! Poly)) (!
    (= (vstd!std_specs.nonzero.ZeroablePrimitiveSpec.is_zero.? $ (SINT 32) self!) (B (=
       (%I self!) 0
    )))
    :pattern ((vstd!std_specs.nonzero.ZeroablePrimitiveSpec.is_zero.? $ (SINT 32) self!))
    :qid internal_vstd!std_specs.nonzero.impl&__8.is_zero.?_definition
    :skolemid skolem_internal_vstd!std_specs.nonzero.impl&__8.is_zero.?_definition
))))

;; Function-Axioms vstd::std_specs::nonzero::impl&%9::is_zero
(assert
 (fuel_bool_default fuel%vstd!std_specs.nonzero.impl&%9.is_zero.)
)
(assert
 (=>
  (fuel_bool fuel%vstd!std_specs.nonzero.impl&%9.is_zero.)
  (forall ((self! Poly)) (!
    (= (vstd!std_specs.nonzero.ZeroablePrimitiveSpec.is_zero.? $ (SINT 64) self!) (B (=
       (%I self!) 0
    )))
    :pattern ((vstd!std_specs.nonzero.ZeroablePrimitiveSpec.is_zero.? $ (SINT 64) self!))
    :qid internal_vstd!std_specs.nonzero.impl&__9.is_zero.?_definition
    :skolemid skolem_internal_vstd!std_specs.nonzero.impl&__9.is_zero.?_definition
))))

;; Function-Axioms vstd::std_specs::nonzero::impl&%10::is_zero
(assert
 (fuel_bool_default fuel%vstd!std_specs.nonzero.impl&%10.is_zero.)
)
(assert
 (=>
  (fuel_bool fuel%vstd!std_specs.nonzero.impl&%10.is_zero.)
  (forall ((self! Poly)) (!
    (= (vstd!std_specs.nonzero.ZeroablePrimitiveSpec.is_zero.? $ ISIZE self!) (B (= (%I self!)
       0
    )))
    :pattern ((vstd!std_specs.nonzero.ZeroablePrimitiveSpec.is_zero.? $ ISIZE self!))
    :qid internal_vstd!std_specs.nonzero.impl&__10.is_zero.?_definition
    :skolemid skolem_internal_vstd!std_specs.nonzero.impl&__10.is_zero.?_definition
))))

;; Function-Axioms vstd::std_specs::nonzero::nonzero_spec_get
(assert
 (fuel_bool_default fuel%vstd!std_specs.nonzero.nonzero_spec_get.)
)
(assert
 (=>
  (fuel_bool fuel%vstd!std_specs.nonzero.nonzero_spec_get.)
  (forall ((T&. Dcr) (T& Type) (n! Poly)) (!
    (= (vstd!std_specs.nonzero.nonzero_spec_get.? T&. T& n!) (vstd!view.View.view.? $ (
       TYPE%core!num.nonzero.NonZero. T&. T&
      ) n!
    ))
    :pattern ((vstd!std_specs.nonzero.nonzero_spec_get.? T&. T& n!))
    :qid internal_vstd!std_specs.nonzero.nonzero_spec_get.?_definition
    :skolemid skolem_internal_vstd!std_specs.nonzero.nonzero_spec_get.?_definition
))))
(assert
 (forall ((T&. Dcr) (T& Type) (n! Poly)) (!
   (=>
    (has_type n! (TYPE%core!num.nonzero.NonZero. T&. T&))
    (has_type (vstd!std_specs.nonzero.nonzero_spec_get.? T&. T& n!) T&)
   )
   :pattern ((vstd!std_specs.nonzero.nonzero_spec_get.? T&. T& n!))
   :qid internal_vstd!std_specs.nonzero.nonzero_spec_get.?_pre_post_definition
   :skolemid skolem_internal_vstd!std_specs.nonzero.nonzero_spec_get.?_pre_post_definition
)))

;; Function-Axioms vstd::std_specs::nonzero::impl&%16::obeys_from_spec
(assert
 (fuel_bool_default fuel%vstd!std_specs.nonzero.impl&%16.obeys_from_spec.)
)
(assert
 (=>
  (fuel_bool fuel%vstd!std_specs.nonzero.impl&%16.obeys_from_spec.)
  (forall ((T&. Dcr) (T& Type)) (!
    (=>
     (and
      (sized T&.)
      (tr_bound%core!num.nonzero.ZeroablePrimitive. T&. T&)
     )
     (= (vstd!std_specs.convert.FromSpec.obeys_from_spec.? T&. T& $ (TYPE%core!num.nonzero.NonZero.
        T&. T&
       )
      ) (B true)
    ))
    :pattern ((vstd!std_specs.convert.FromSpec.obeys_from_spec.? T&. T& $ (TYPE%core!num.nonzero.NonZero.
       T&. T&
    )))
    :qid internal_vstd!std_specs.nonzero.impl&__16.obeys_from_spec.?_definition
    :skolemid skolem_internal_vstd!std_specs.nonzero.impl&__16.obeys_from_spec.?_definition
))))

;; Function-Axioms vstd::std_specs::nonzero::impl&%16::from_spec
(assert
 (fuel_bool_default fuel%vstd!std_specs.nonzero.impl&%16.from_spec.)
)
(assert
 (=>
  (fuel_bool fuel%vstd!std_specs.nonzero.impl&%16.from_spec.)
  (forall ((T&. Dcr) (T& Type) (nz! Poly)) (!
    (=>
     (and
      (sized T&.)
      (tr_bound%core!num.nonzero.ZeroablePrimitive. T&. T&)
     )
     (= (vstd!std_specs.convert.FromSpec.from_spec.? T&. T& $ (TYPE%core!num.nonzero.NonZero.
        T&. T&
       ) nz!
      ) (vstd!view.View.view.? $ (TYPE%core!num.nonzero.NonZero. T&. T&) nz!)
    ))
    :pattern ((vstd!std_specs.convert.FromSpec.from_spec.? T&. T& $ (TYPE%core!num.nonzero.NonZero.
       T&. T&
      ) nz!
    ))
    :qid internal_vstd!std_specs.nonzero.impl&__16.from_spec.?_definition
    :skolemid skolem_internal_vstd!std_specs.nonzero.impl&__16.from_spec.?_definition
))))

;; Function-Axioms vstd::map_lib::impl&%0::contains_key
(assert
 (fuel_bool_default fuel%vstd!map_lib.impl&%0.contains_key.)
)
(assert
 (=>
  (fuel_bool fuel%vstd!map_lib.impl&%0.contains_key.)
  (forall ((K&. Dcr) (K& Type) (V&. Dcr) (V& Type) (self! Poly) (k! Poly)) (!
    (= (vstd!map_lib.impl&%0.contains_key.? K&. K& V&. V& self! k!) (vstd!iset.ISet.contains.?
      K&. K& (vstd!set.impl&%0.to_iset.? K&. K& (vstd!map.impl&%0.dom.? K&. K& V&. V& self!))
      k!
    ))
    :pattern ((vstd!map_lib.impl&%0.contains_key.? K&. K& V&. V& self! k!))
    :qid internal_vstd!map_lib.impl&__0.contains_key.?_definition
    :skolemid skolem_internal_vstd!map_lib.impl&__0.contains_key.?_definition
))))

;; Function-Axioms vstd::raw_ptr::impl&%3::view
(assert
 (fuel_bool_default fuel%vstd!raw_ptr.impl&%3.view.)
)
(assert
 (=>
  (fuel_bool fuel%vstd!raw_ptr.impl&%3.view.)
  (forall ((T&. Dcr) (T& Type) (self! Poly)) (!
    (= (vstd!view.View.view.? (CONST_PTR $) (PTR T&. T&) self!) (vstd!view.View.view.?
      $ (PTR T&. T&) self!
    ))
    :pattern ((vstd!view.View.view.? (CONST_PTR $) (PTR T&. T&) self!))
    :qid internal_vstd!raw_ptr.impl&__3.view.?_definition
    :skolemid skolem_internal_vstd!raw_ptr.impl&__3.view.?_definition
))))

;; Function-Specs vstd::seq_lib::impl&%0::drop_first
(declare-fun req%vstd!seq_lib.impl&%0.drop_first. (Dcr Type Poly) Bool)
(declare-const %%global_location_label%%9 Bool)
(assert
 (forall ((A&. Dcr) (A& Type) (self! Poly)) (!
   (= (req%vstd!seq_lib.impl&%0.drop_first. A&. A& self!) (=>
     %%global_location_label%%9
     (>= (vstd!seq.Seq.len.? A&. A& self!) 1)
   ))
   :pattern ((req%vstd!seq_lib.impl&%0.drop_first. A&. A& self!))
   :qid internal_req__vstd!seq_lib.impl&__0.drop_first._definition
   :skolemid skolem_internal_req__vstd!seq_lib.impl&__0.drop_first._definition
)))

;; Function-Axioms vstd::seq_lib::impl&%0::drop_first
(assert
 (fuel_bool_default fuel%vstd!seq_lib.impl&%0.drop_first.)
)
(assert
 (=>
  (fuel_bool fuel%vstd!seq_lib.impl&%0.drop_first.)
  (forall ((A&. Dcr) (A& Type) (self! Poly)) (!
    (= (vstd!seq_lib.impl&%0.drop_first.? A&. A& self!) (vstd!seq.Seq.subrange.? A&. A&
      self! (I 1) (I (vstd!seq.Seq.len.? A&. A& self!))
    ))
    :pattern ((vstd!seq_lib.impl&%0.drop_first.? A&. A& self!))
    :qid internal_vstd!seq_lib.impl&__0.drop_first.?_definition
    :skolemid skolem_internal_vstd!seq_lib.impl&__0.drop_first.?_definition
))))
(assert
 (forall ((A&. Dcr) (A& Type) (self! Poly)) (!
   (=>
    (has_type self! (TYPE%vstd!seq.Seq. A&. A&))
    (has_type (vstd!seq_lib.impl&%0.drop_first.? A&. A& self!) (TYPE%vstd!seq.Seq. A&.
      A&
   )))
   :pattern ((vstd!seq_lib.impl&%0.drop_first.? A&. A& self!))
   :qid internal_vstd!seq_lib.impl&__0.drop_first.?_pre_post_definition
   :skolemid skolem_internal_vstd!seq_lib.impl&__0.drop_first.?_pre_post_definition
)))

;; Function-Axioms vstd::utf8::has_width_1_encoding
(assert
 (fuel_bool_default fuel%vstd!utf8.has_width_1_encoding.)
)
(assert
 (=>
  (fuel_bool fuel%vstd!utf8.has_width_1_encoding.)
  (forall ((v! Poly)) (!
    (= (vstd!utf8.has_width_1_encoding.? v!) (let
      ((tmp%%$ 0))
      (let
       ((tmp%%$1 (%I v!)))
       (let
        ((tmp%%$2 127))
        (and
         (<= tmp%%$ tmp%%$1)
         (<= tmp%%$1 tmp%%$2)
    )))))
    :pattern ((vstd!utf8.has_width_1_encoding.? v!))
    :qid internal_vstd!utf8.has_width_1_encoding.?_definition
    :skolemid skolem_internal_vstd!utf8.has_width_1_encoding.?_definition
))))

;; Function-Axioms vstd::utf8::has_width_2_encoding
(assert
 (fuel_bool_default fuel%vstd!utf8.has_width_2_encoding.)
)
(assert
 (=>
  (fuel_bool fuel%vstd!utf8.has_width_2_encoding.)
  (forall ((v! Poly)) (!
    (= (vstd!utf8.has_width_2_encoding.? v!) (let
      ((tmp%%$ 128))
      (let
       ((tmp%%$1 (%I v!)))
       (let
        ((tmp%%$2 2047))
        (and
         (<= tmp%%$ tmp%%$1)
         (<= tmp%%$1 tmp%%$2)
    )))))
    :pattern ((vstd!utf8.has_width_2_encoding.? v!))
    :qid internal_vstd!utf8.has_width_2_encoding.?_definition
    :skolemid skolem_internal_vstd!utf8.has_width_2_encoding.?_definition
))))

;; Function-Axioms vstd::utf8::has_width_3_encoding
(assert
 (fuel_bool_default fuel%vstd!utf8.has_width_3_encoding.)
)
(assert
 (=>
  (fuel_bool fuel%vstd!utf8.has_width_3_encoding.)
  (forall ((v! Poly)) (!
    (= (vstd!utf8.has_width_3_encoding.? v!) (and
      (let
       ((tmp%%$ 2048))
       (let
        ((tmp%%$1 (%I v!)))
        (let
         ((tmp%%$2 65535))
         (and
          (<= tmp%%$ tmp%%$1)
          (<= tmp%%$1 tmp%%$2)
      ))))
      (not (let
        ((tmp%%$ 55296))
        (let
         ((tmp%%$4 (%I v!)))
         (let
          ((tmp%%$5 57343))
          (and
           (<= tmp%%$ tmp%%$4)
           (<= tmp%%$4 tmp%%$5)
    )))))))
    :pattern ((vstd!utf8.has_width_3_encoding.? v!))
    :qid internal_vstd!utf8.has_width_3_encoding.?_definition
    :skolemid skolem_internal_vstd!utf8.has_width_3_encoding.?_definition
))))

;; Function-Axioms vstd::utf8::has_width_4_encoding
(assert
 (fuel_bool_default fuel%vstd!utf8.has_width_4_encoding.)
)
(assert
 (=>
  (fuel_bool fuel%vstd!utf8.has_width_4_encoding.)
  (forall ((v! Poly)) (!
    (= (vstd!utf8.has_width_4_encoding.? v!) (let
      ((tmp%%$ 65536))
      (let
       ((tmp%%$1 (%I v!)))
       (let
        ((tmp%%$2 1114111))
        (and
         (<= tmp%%$ tmp%%$1)
         (<= tmp%%$1 tmp%%$2)
    )))))
    :pattern ((vstd!utf8.has_width_4_encoding.? v!))
    :qid internal_vstd!utf8.has_width_4_encoding.?_definition
    :skolemid skolem_internal_vstd!utf8.has_width_4_encoding.?_definition
))))

;; Function-Axioms vstd::utf8::is_scalar
(assert
 (fuel_bool_default fuel%vstd!utf8.is_scalar.)
)
(assert
 (=>
  (fuel_bool fuel%vstd!utf8.is_scalar.)
  (forall ((v! Poly)) (!
    (= (vstd!utf8.is_scalar.? v!) (or
      (or
       (or
        (vstd!utf8.has_width_1_encoding.? v!)
        (vstd!utf8.has_width_2_encoding.? v!)
       )
       (vstd!utf8.has_width_3_encoding.? v!)
      )
      (vstd!utf8.has_width_4_encoding.? v!)
    ))
    :pattern ((vstd!utf8.is_scalar.? v!))
    :qid internal_vstd!utf8.is_scalar.?_definition
    :skolemid skolem_internal_vstd!utf8.is_scalar.?_definition
))))

;; Function-Specs vstd::utf8::leading_byte_width_1
(declare-fun req%vstd!utf8.leading_byte_width_1. (Poly) Bool)
(declare-const %%global_location_label%%10 Bool)
(assert
 (forall ((scalar! Poly)) (!
   (= (req%vstd!utf8.leading_byte_width_1. scalar!) (=>
     %%global_location_label%%10
     (vstd!utf8.has_width_1_encoding.? scalar!)
   ))
   :pattern ((req%vstd!utf8.leading_byte_width_1. scalar!))
   :qid internal_req__vstd!utf8.leading_byte_width_1._definition
   :skolemid skolem_internal_req__vstd!utf8.leading_byte_width_1._definition
)))

;; Function-Axioms vstd::utf8::leading_byte_width_1
(assert
 (fuel_bool_default fuel%vstd!utf8.leading_byte_width_1.)
)
(assert
 (=>
  (fuel_bool fuel%vstd!utf8.leading_byte_width_1.)
  (forall ((scalar! Poly)) (!
    (= (vstd!utf8.leading_byte_width_1.? scalar!) (uClip 8 (uClip 32 (bitand (I (%I scalar!))
        (I 127)
    ))))
    :pattern ((vstd!utf8.leading_byte_width_1.? scalar!))
    :qid internal_vstd!utf8.leading_byte_width_1.?_definition
    :skolemid skolem_internal_vstd!utf8.leading_byte_width_1.?_definition
))))
(assert
 (forall ((scalar! Poly)) (!
   (=>
    (has_type scalar! (UINT 32))
    (uInv 8 (vstd!utf8.leading_byte_width_1.? scalar!))
   )
   :pattern ((vstd!utf8.leading_byte_width_1.? scalar!))
   :qid internal_vstd!utf8.leading_byte_width_1.?_pre_post_definition
   :skolemid skolem_internal_vstd!utf8.leading_byte_width_1.?_pre_post_definition
)))

;; Function-Specs vstd::utf8::leading_byte_width_2
(declare-fun req%vstd!utf8.leading_byte_width_2. (Poly) Bool)
(declare-const %%global_location_label%%11 Bool)
(assert
 (forall ((scalar! Poly)) (!
   (= (req%vstd!utf8.leading_byte_width_2. scalar!) (=>
     %%global_location_label%%11
     (vstd!utf8.has_width_2_encoding.? scalar!)
   ))
   :pattern ((req%vstd!utf8.leading_byte_width_2. scalar!))
   :qid internal_req__vstd!utf8.leading_byte_width_2._definition
   :skolemid skolem_internal_req__vstd!utf8.leading_byte_width_2._definition
)))

;; Function-Axioms vstd::utf8::leading_byte_width_2
(assert
 (fuel_bool_default fuel%vstd!utf8.leading_byte_width_2.)
)
(assert
 (=>
  (fuel_bool fuel%vstd!utf8.leading_byte_width_2.)
  (forall ((scalar! Poly)) (!
    (= (vstd!utf8.leading_byte_width_2.? scalar!) (uClip 8 (bitor (I 192) (I (uClip 8 (uClip
          32 (bitand (I (uClip 32 (bitshr (I (%I scalar!)) (I 6)))) (I 31))
    ))))))
    :pattern ((vstd!utf8.leading_byte_width_2.? scalar!))
    :qid internal_vstd!utf8.leading_byte_width_2.?_definition
    :skolemid skolem_internal_vstd!utf8.leading_byte_width_2.?_definition
))))
(assert
 (forall ((scalar! Poly)) (!
   (=>
    (has_type scalar! (UINT 32))
    (uInv 8 (vstd!utf8.leading_byte_width_2.? scalar!))
   )
   :pattern ((vstd!utf8.leading_byte_width_2.? scalar!))
   :qid internal_vstd!utf8.leading_byte_width_2.?_pre_post_definition
   :skolemid skolem_internal_vstd!utf8.leading_byte_width_2.?_pre_post_definition
)))

;; Function-Specs vstd::utf8::last_continuation_byte
(declare-fun req%vstd!utf8.last_continuation_byte. (Poly) Bool)
(declare-const %%global_location_label%%12 Bool)
(assert
 (forall ((scalar! Poly)) (!
   (= (req%vstd!utf8.last_continuation_byte. scalar!) (=>
     %%global_location_label%%12
     (or
      (or
       (vstd!utf8.has_width_2_encoding.? scalar!)
       (vstd!utf8.has_width_3_encoding.? scalar!)
      )
      (vstd!utf8.has_width_4_encoding.? scalar!)
   )))
   :pattern ((req%vstd!utf8.last_continuation_byte. scalar!))
   :qid internal_req__vstd!utf8.last_continuation_byte._definition
   :skolemid skolem_internal_req__vstd!utf8.last_continuation_byte._definition
)))

;; Function-Axioms vstd::utf8::last_continuation_byte
(assert
 (fuel_bool_default fuel%vstd!utf8.last_continuation_byte.)
)
(assert
 (=>
  (fuel_bool fuel%vstd!utf8.last_continuation_byte.)
  (forall ((scalar! Poly)) (!
    (= (vstd!utf8.last_continuation_byte.? scalar!) (uClip 8 (bitor (I 128) (I (uClip 8 (uClip
          32 (bitand (I (%I scalar!)) (I 63))
    ))))))
    :pattern ((vstd!utf8.last_continuation_byte.? scalar!))
    :qid internal_vstd!utf8.last_continuation_byte.?_definition
    :skolemid skolem_internal_vstd!utf8.last_continuation_byte.?_definition
))))
(assert
 (forall ((scalar! Poly)) (!
   (=>
    (has_type scalar! (UINT 32))
    (uInv 8 (vstd!utf8.last_continuation_byte.? scalar!))
   )
   :pattern ((vstd!utf8.last_continuation_byte.? scalar!))
   :qid internal_vstd!utf8.last_continuation_byte.?_pre_post_definition
   :skolemid skolem_internal_vstd!utf8.last_continuation_byte.?_pre_post_definition
)))

;; Function-Specs vstd::utf8::leading_byte_width_3
(declare-fun req%vstd!utf8.leading_byte_width_3. (Poly) Bool)
(declare-const %%global_location_label%%13 Bool)
(assert
 (forall ((scalar! Poly)) (!
   (= (req%vstd!utf8.leading_byte_width_3. scalar!) (=>
     %%global_location_label%%13
     (vstd!utf8.has_width_3_encoding.? scalar!)
   ))
   :pattern ((req%vstd!utf8.leading_byte_width_3. scalar!))
   :qid internal_req__vstd!utf8.leading_byte_width_3._definition
   :skolemid skolem_internal_req__vstd!utf8.leading_byte_width_3._definition
)))

;; Function-Axioms vstd::utf8::leading_byte_width_3
(assert
 (fuel_bool_default fuel%vstd!utf8.leading_byte_width_3.)
)
(assert
 (=>
  (fuel_bool fuel%vstd!utf8.leading_byte_width_3.)
  (forall ((scalar! Poly)) (!
    (= (vstd!utf8.leading_byte_width_3.? scalar!) (uClip 8 (bitor (I 224) (I (uClip 8 (uClip
          32 (bitand (I (uClip 32 (bitshr (I (%I scalar!)) (I 12)))) (I 15))
    ))))))
    :pattern ((vstd!utf8.leading_byte_width_3.? scalar!))
    :qid internal_vstd!utf8.leading_byte_width_3.?_definition
    :skolemid skolem_internal_vstd!utf8.leading_byte_width_3.?_definition
))))
(assert
 (forall ((scalar! Poly)) (!
   (=>
    (has_type scalar! (UINT 32))
    (uInv 8 (vstd!utf8.leading_byte_width_3.? scalar!))
   )
   :pattern ((vstd!utf8.leading_byte_width_3.? scalar!))
   :qid internal_vstd!utf8.leading_byte_width_3.?_pre_post_definition
   :skolemid skolem_internal_vstd!utf8.leading_byte_width_3.?_pre_post_definition
)))

;; Function-Specs vstd::utf8::second_last_continuation_byte
(declare-fun req%vstd!utf8.second_last_continuation_byte. (Poly) Bool)
(declare-const %%global_location_label%%14 Bool)
(assert
 (forall ((scalar! Poly)) (!
   (= (req%vstd!utf8.second_last_continuation_byte. scalar!) (=>
     %%global_location_label%%14
     (or
      (vstd!utf8.has_width_3_encoding.? scalar!)
      (vstd!utf8.has_width_4_encoding.? scalar!)
   )))
   :pattern ((req%vstd!utf8.second_last_continuation_byte. scalar!))
   :qid internal_req__vstd!utf8.second_last_continuation_byte._definition
   :skolemid skolem_internal_req__vstd!utf8.second_last_continuation_byte._definition
)))

;; Function-Axioms vstd::utf8::second_last_continuation_byte
(assert
 (fuel_bool_default fuel%vstd!utf8.second_last_continuation_byte.)
)
(assert
 (=>
  (fuel_bool fuel%vstd!utf8.second_last_continuation_byte.)
  (forall ((scalar! Poly)) (!
    (= (vstd!utf8.second_last_continuation_byte.? scalar!) (uClip 8 (bitor (I 128) (I (uClip
         8 (uClip 32 (bitand (I (uClip 32 (bitshr (I (%I scalar!)) (I 6)))) (I 63)))
    )))))
    :pattern ((vstd!utf8.second_last_continuation_byte.? scalar!))
    :qid internal_vstd!utf8.second_last_continuation_byte.?_definition
    :skolemid skolem_internal_vstd!utf8.second_last_continuation_byte.?_definition
))))
(assert
 (forall ((scalar! Poly)) (!
   (=>
    (has_type scalar! (UINT 32))
    (uInv 8 (vstd!utf8.second_last_continuation_byte.? scalar!))
   )
   :pattern ((vstd!utf8.second_last_continuation_byte.? scalar!))
   :qid internal_vstd!utf8.second_last_continuation_byte.?_pre_post_definition
   :skolemid skolem_internal_vstd!utf8.second_last_continuation_byte.?_pre_post_definition
)))

;; Function-Specs vstd::utf8::leading_byte_width_4
(declare-fun req%vstd!utf8.leading_byte_width_4. (Poly) Bool)
(declare-const %%global_location_label%%15 Bool)
(assert
 (forall ((scalar! Poly)) (!
   (= (req%vstd!utf8.leading_byte_width_4. scalar!) (=>
     %%global_location_label%%15
     (vstd!utf8.has_width_4_encoding.? scalar!)
   ))
   :pattern ((req%vstd!utf8.leading_byte_width_4. scalar!))
   :qid internal_req__vstd!utf8.leading_byte_width_4._definition
   :skolemid skolem_internal_req__vstd!utf8.leading_byte_width_4._definition
)))

;; Function-Axioms vstd::utf8::leading_byte_width_4
(assert
 (fuel_bool_default fuel%vstd!utf8.leading_byte_width_4.)
)
(assert
 (=>
  (fuel_bool fuel%vstd!utf8.leading_byte_width_4.)
  (forall ((scalar! Poly)) (!
    (= (vstd!utf8.leading_byte_width_4.? scalar!) (uClip 8 (bitor (I 240) (I (uClip 8 (uClip
          32 (bitand (I (uClip 32 (bitshr (I (%I scalar!)) (I 18)))) (I 7))
    ))))))
    :pattern ((vstd!utf8.leading_byte_width_4.? scalar!))
    :qid internal_vstd!utf8.leading_byte_width_4.?_definition
    :skolemid skolem_internal_vstd!utf8.leading_byte_width_4.?_definition
))))
(assert
 (forall ((scalar! Poly)) (!
   (=>
    (has_type scalar! (UINT 32))
    (uInv 8 (vstd!utf8.leading_byte_width_4.? scalar!))
   )
   :pattern ((vstd!utf8.leading_byte_width_4.? scalar!))
   :qid internal_vstd!utf8.leading_byte_width_4.?_pre_post_definition
   :skolemid skolem_internal_vstd!utf8.leading_byte_width_4.?_pre_post_definition
)))

;; Function-Specs vstd::utf8::third_last_continuation_byte
(declare-fun req%vstd!utf8.third_last_continuation_byte. (Poly) Bool)
(declare-const %%global_location_label%%16 Bool)
(assert
 (forall ((scalar! Poly)) (!
   (= (req%vstd!utf8.third_last_continuation_byte. scalar!) (=>
     %%global_location_label%%16
     (vstd!utf8.has_width_4_encoding.? scalar!)
   ))
   :pattern ((req%vstd!utf8.third_last_continuation_byte. scalar!))
   :qid internal_req__vstd!utf8.third_last_continuation_byte._definition
   :skolemid skolem_internal_req__vstd!utf8.third_last_continuation_byte._definition
)))

;; Function-Axioms vstd::utf8::third_last_continuation_byte
(assert
 (fuel_bool_default fuel%vstd!utf8.third_last_continuation_byte.)
)
(assert
 (=>
  (fuel_bool fuel%vstd!utf8.third_last_continuation_byte.)
  (forall ((scalar! Poly)) (!
    (= (vstd!utf8.third_last_continuation_byte.? scalar!) (uClip 8 (bitor (I 128) (I (uClip
         8 (uClip 32 (bitand (I (uClip 32 (bitshr (I (%I scalar!)) (I 12)))) (I 63)))
    )))))
    :pattern ((vstd!utf8.third_last_continuation_byte.? scalar!))
    :qid internal_vstd!utf8.third_last_continuation_byte.?_definition
    :skolemid skolem_internal_vstd!utf8.third_last_continuation_byte.?_definition
))))
(assert
 (forall ((scalar! Poly)) (!
   (=>
    (has_type scalar! (UINT 32))
    (uInv 8 (vstd!utf8.third_last_continuation_byte.? scalar!))
   )
   :pattern ((vstd!utf8.third_last_continuation_byte.? scalar!))
   :qid internal_vstd!utf8.third_last_continuation_byte.?_pre_post_definition
   :skolemid skolem_internal_vstd!utf8.third_last_continuation_byte.?_pre_post_definition
)))

;; Function-Specs vstd::utf8::encode_scalar
(declare-fun req%vstd!utf8.encode_scalar. (Poly) Bool)
(declare-const %%global_location_label%%17 Bool)
(assert
 (forall ((scalar! Poly)) (!
   (= (req%vstd!utf8.encode_scalar. scalar!) (=>
     %%global_location_label%%17
     (vstd!utf8.is_scalar.? scalar!)
   ))
   :pattern ((req%vstd!utf8.encode_scalar. scalar!))
   :qid internal_req__vstd!utf8.encode_scalar._definition
   :skolemid skolem_internal_req__vstd!utf8.encode_scalar._definition
)))

;; Function-Axioms vstd::utf8::encode_scalar
(assert
 (fuel_bool_default fuel%vstd!utf8.encode_scalar.)
)
(declare-fun %%array%%0 (Poly Poly) %%Function%%)
(assert
 (forall ((%%hole%%0 Poly) (%%hole%%1 Poly)) (!
   (let
    ((%%x%% (%%array%%0 %%hole%%0 %%hole%%1)))
    (and
     (= (%%apply%%1 %%x%% 0) %%hole%%0)
     (= (%%apply%%1 %%x%% 1) %%hole%%1)
   ))
   :pattern ((%%array%%0 %%hole%%0 %%hole%%1))
   :qid __AIR_ARRAY_QID__
   :skolemid skolem___AIR_ARRAY_QID__
)))
(declare-fun %%array%%1 (Poly Poly Poly) %%Function%%)
(assert
 (forall ((%%hole%%0 Poly) (%%hole%%1 Poly) (%%hole%%2 Poly)) (!
   (let
    ((%%x%% (%%array%%1 %%hole%%0 %%hole%%1 %%hole%%2)))
    (and
     (= (%%apply%%1 %%x%% 0) %%hole%%0)
     (= (%%apply%%1 %%x%% 1) %%hole%%1)
     (= (%%apply%%1 %%x%% 2) %%hole%%2)
   ))
   :pattern ((%%array%%1 %%hole%%0 %%hole%%1 %%hole%%2))
   :qid __AIR_ARRAY_QID__
   :skolemid skolem___AIR_ARRAY_QID__
)))
(declare-fun %%array%%2 (Poly Poly Poly Poly) %%Function%%)
(assert
 (forall ((%%hole%%0 Poly) (%%hole%%1 Poly) (%%hole%%2 Poly) (%%hole%%3 Poly)) (!
   (let
    ((%%x%% (%%array%%2 %%hole%%0 %%hole%%1 %%hole%%2 %%hole%%3)))
    (and
     (= (%%apply%%1 %%x%% 0) %%hole%%0)
     (= (%%apply%%1 %%x%% 1) %%hole%%1)
     (= (%%apply%%1 %%x%% 2) %%hole%%2)
     (= (%%apply%%1 %%x%% 3) %%hole%%3)
   ))
   :pattern ((%%array%%2 %%hole%%0 %%hole%%1 %%hole%%2 %%hole%%3))
   :qid __AIR_ARRAY_QID__
   :skolemid skolem___AIR_ARRAY_QID__
)))
(assert
 (=>
  (fuel_bool fuel%vstd!utf8.encode_scalar.)
  (forall ((scalar! Poly)) (!
    (= (vstd!utf8.encode_scalar.? scalar!) (%Poly%vstd!seq.Seq<u8.>. (ite
       (vstd!utf8.has_width_1_encoding.? scalar!)
       (vstd!seq.Seq.push.? $ (UINT 8) (vstd!seq.Seq.empty.? $ (UINT 8)) (I (vstd!utf8.leading_byte_width_1.?
          scalar!
       )))
       (ite
        (vstd!utf8.has_width_2_encoding.? scalar!)
        (vstd!view.View.view.? $ (ARRAY $ (UINT 8) $ (CONST_INT 2)) (array_new $ (UINT 8) 2
          (%%array%%0 (I (vstd!utf8.leading_byte_width_2.? scalar!)) (I (vstd!utf8.last_continuation_byte.?
             scalar!
        )))))
        (ite
         (vstd!utf8.has_width_3_encoding.? scalar!)
         (vstd!view.View.view.? $ (ARRAY $ (UINT 8) $ (CONST_INT 3)) (array_new $ (UINT 8) 3
           (%%array%%1 (I (vstd!utf8.leading_byte_width_3.? scalar!)) (I (vstd!utf8.second_last_continuation_byte.?
              scalar!
             )
            ) (I (vstd!utf8.last_continuation_byte.? scalar!))
         )))
         (vstd!view.View.view.? $ (ARRAY $ (UINT 8) $ (CONST_INT 4)) (array_new $ (UINT 8) 4
           (%%array%%2 (I (vstd!utf8.leading_byte_width_4.? scalar!)) (I (vstd!utf8.third_last_continuation_byte.?
              scalar!
             )
            ) (I (vstd!utf8.second_last_continuation_byte.? scalar!)) (I (vstd!utf8.last_continuation_byte.?
              scalar!
    ))))))))))
    :pattern ((vstd!utf8.encode_scalar.? scalar!))
    :qid internal_vstd!utf8.encode_scalar.?_definition
    :skolemid skolem_internal_vstd!utf8.encode_scalar.?_definition
))))

;; Function-Axioms vstd::utf8::encode_utf8
(assert
 (fuel_bool_default fuel%vstd!utf8.encode_utf8.)
)
(declare-const fuel_nat%vstd!utf8.encode_utf8. Fuel)
(assert
 (forall ((chars! Poly) (fuel% Fuel)) (!
   (= (vstd!utf8.rec%encode_utf8.? chars! fuel%) (vstd!utf8.rec%encode_utf8.? chars! zero))
   :pattern ((vstd!utf8.rec%encode_utf8.? chars! fuel%))
   :qid internal_vstd!utf8.encode_utf8._fuel_to_zero_definition
   :skolemid skolem_internal_vstd!utf8.encode_utf8._fuel_to_zero_definition
)))
(assert
 (forall ((chars! Poly) (fuel% Fuel)) (!
   (=>
    (has_type chars! (TYPE%vstd!seq.Seq. $ CHAR))
    (= (vstd!utf8.rec%encode_utf8.? chars! (succ fuel%)) (%Poly%vstd!seq.Seq<u8.>. (ite
       (= (vstd!seq.Seq.len.? $ CHAR chars!) 0)
       (vstd!seq.Seq.empty.? $ (UINT 8))
       (vstd!seq.Seq.add.? $ (UINT 8) (Poly%vstd!seq.Seq<u8.>. (vstd!utf8.encode_scalar.? (
           I (uClip 32 (%I (vstd!seq.Seq.index.? $ CHAR chars! (I 0))))
         ))
        ) (Poly%vstd!seq.Seq<u8.>. (vstd!utf8.rec%encode_utf8.? (vstd!seq_lib.impl&%0.drop_first.?
           $ CHAR chars!
          ) fuel%
   )))))))
   :pattern ((vstd!utf8.rec%encode_utf8.? chars! (succ fuel%)))
   :qid internal_vstd!utf8.encode_utf8._fuel_to_body_definition
   :skolemid skolem_internal_vstd!utf8.encode_utf8._fuel_to_body_definition
)))
(assert
 (=>
  (fuel_bool fuel%vstd!utf8.encode_utf8.)
  (forall ((chars! Poly)) (!
    (=>
     (has_type chars! (TYPE%vstd!seq.Seq. $ CHAR))
     (= (vstd!utf8.encode_utf8.? chars!) (vstd!utf8.rec%encode_utf8.? chars! (succ fuel_nat%vstd!utf8.encode_utf8.)))
    )
    :pattern ((vstd!utf8.encode_utf8.? chars!))
    :qid internal_vstd!utf8.encode_utf8.?_definition
    :skolemid skolem_internal_vstd!utf8.encode_utf8.?_definition
))))

;; Function-Axioms vstd::string::impl&%3::spec_bytes
(assert
 (fuel_bool_default fuel%vstd!string.impl&%3.spec_bytes.)
)
(assert
 (=>
  (fuel_bool fuel%vstd!string.impl&%3.spec_bytes.)
  (forall ((self! Poly)) (!
    (= (vstd!string.StringSliceAdditionalSpecFns.spec_bytes.? $slice STRSLICE self!) (
      Poly%vstd!seq.Seq<u8.>. (vstd!utf8.encode_utf8.? (vstd!view.View.view.? $slice STRSLICE
        self!
    ))))
    :pattern ((vstd!string.StringSliceAdditionalSpecFns.spec_bytes.? $slice STRSLICE self!))
    :qid internal_vstd!string.impl&__3.spec_bytes.?_definition
    :skolemid skolem_internal_vstd!string.impl&__3.spec_bytes.?_definition
))))

;; Function-Axioms vstd::utf8::is_leading_byte_width_1
(assert
 (fuel_bool_default fuel%vstd!utf8.is_leading_byte_width_1.)
)
(assert
 (=>
  (fuel_bool fuel%vstd!utf8.is_leading_byte_width_1.)
  (forall ((byte! Poly)) (!
    (= (vstd!utf8.is_leading_byte_width_1.? byte!) (let
      ((tmp%%$ 0))
      (let
       ((tmp%%$1 (%I byte!)))
       (let
        ((tmp%%$2 127))
        (and
         (<= tmp%%$ tmp%%$1)
         (<= tmp%%$1 tmp%%$2)
    )))))
    :pattern ((vstd!utf8.is_leading_byte_width_1.? byte!))
    :qid internal_vstd!utf8.is_leading_byte_width_1.?_definition
    :skolemid skolem_internal_vstd!utf8.is_leading_byte_width_1.?_definition
))))

;; Function-Axioms vstd::utf8::is_leading_byte_width_2
(assert
 (fuel_bool_default fuel%vstd!utf8.is_leading_byte_width_2.)
)
(assert
 (=>
  (fuel_bool fuel%vstd!utf8.is_leading_byte_width_2.)
  (forall ((byte! Poly)) (!
    (= (vstd!utf8.is_leading_byte_width_2.? byte!) (let
      ((tmp%%$ 192))
      (let
       ((tmp%%$1 (%I byte!)))
       (let
        ((tmp%%$2 223))
        (and
         (<= tmp%%$ tmp%%$1)
         (<= tmp%%$1 tmp%%$2)
    )))))
    :pattern ((vstd!utf8.is_leading_byte_width_2.? byte!))
    :qid internal_vstd!utf8.is_leading_byte_width_2.?_definition
    :skolemid skolem_internal_vstd!utf8.is_leading_byte_width_2.?_definition
))))

;; Function-Axioms vstd::utf8::is_continuation_byte
(assert
 (fuel_bool_default fuel%vstd!utf8.is_continuation_byte.)
)
(assert
 (=>
  (fuel_bool fuel%vstd!utf8.is_continuation_byte.)
  (forall ((byte! Poly)) (!
    (= (vstd!utf8.is_continuation_byte.? byte!) (let
      ((tmp%%$ 128))
      (let
       ((tmp%%$1 (%I byte!)))
       (let
        ((tmp%%$2 191))
        (and
         (<= tmp%%$ tmp%%$1)
         (<= tmp%%$1 tmp%%$2)
    )))))
    :pattern ((vstd!utf8.is_continuation_byte.? byte!))
    :qid internal_vstd!utf8.is_continuation_byte.?_definition
    :skolemid skolem_internal_vstd!utf8.is_continuation_byte.?_definition
))))

;; Function-Axioms vstd::utf8::is_leading_byte_width_3
(assert
 (fuel_bool_default fuel%vstd!utf8.is_leading_byte_width_3.)
)
(assert
 (=>
  (fuel_bool fuel%vstd!utf8.is_leading_byte_width_3.)
  (forall ((byte! Poly)) (!
    (= (vstd!utf8.is_leading_byte_width_3.? byte!) (let
      ((tmp%%$ 224))
      (let
       ((tmp%%$1 (%I byte!)))
       (let
        ((tmp%%$2 239))
        (and
         (<= tmp%%$ tmp%%$1)
         (<= tmp%%$1 tmp%%$2)
    )))))
    :pattern ((vstd!utf8.is_leading_byte_width_3.? byte!))
    :qid internal_vstd!utf8.is_leading_byte_width_3.?_definition
    :skolemid skolem_internal_vstd!utf8.is_leading_byte_width_3.?_definition
))))

;; Function-Axioms vstd::utf8::is_leading_byte_width_4
(assert
 (fuel_bool_default fuel%vstd!utf8.is_leading_byte_width_4.)
)
(assert
 (=>
  (fuel_bool fuel%vstd!utf8.is_leading_byte_width_4.)
  (forall ((byte! Poly)) (!
    (= (vstd!utf8.is_leading_byte_width_4.? byte!) (let
      ((tmp%%$ 240))
      (let
       ((tmp%%$1 (%I byte!)))
       (let
        ((tmp%%$2 247))
        (and
         (<= tmp%%$ tmp%%$1)
         (<= tmp%%$1 tmp%%$2)
    )))))
    :pattern ((vstd!utf8.is_leading_byte_width_4.? byte!))
    :qid internal_vstd!utf8.is_leading_byte_width_4.?_definition
    :skolemid skolem_internal_vstd!utf8.is_leading_byte_width_4.?_definition
))))

;; Function-Axioms vstd::utf8::valid_leading_and_continuation_bytes_first_codepoint
(assert
 (fuel_bool_default fuel%vstd!utf8.valid_leading_and_continuation_bytes_first_codepoint.)
)
(assert
 (=>
  (fuel_bool fuel%vstd!utf8.valid_leading_and_continuation_bytes_first_codepoint.)
  (forall ((bytes! Poly)) (!
    (= (vstd!utf8.valid_leading_and_continuation_bytes_first_codepoint.? bytes!) (or
      (or
       (or
        (and
         (>= (vstd!seq.Seq.len.? $ (UINT 8) bytes!) 1)
         (vstd!utf8.is_leading_byte_width_1.? (vstd!seq.Seq.index.? $ (UINT 8) bytes! (I 0)))
        )
        (and
         (and
          (>= (vstd!seq.Seq.len.? $ (UINT 8) bytes!) 2)
          (vstd!utf8.is_leading_byte_width_2.? (vstd!seq.Seq.index.? $ (UINT 8) bytes! (I 0)))
         )
         (vstd!utf8.is_continuation_byte.? (vstd!seq.Seq.index.? $ (UINT 8) bytes! (I 1)))
       ))
       (and
        (and
         (and
          (>= (vstd!seq.Seq.len.? $ (UINT 8) bytes!) 3)
          (vstd!utf8.is_leading_byte_width_3.? (vstd!seq.Seq.index.? $ (UINT 8) bytes! (I 0)))
         )
         (vstd!utf8.is_continuation_byte.? (vstd!seq.Seq.index.? $ (UINT 8) bytes! (I 1)))
        )
        (vstd!utf8.is_continuation_byte.? (vstd!seq.Seq.index.? $ (UINT 8) bytes! (I 2)))
      ))
      (and
       (and
        (and
         (and
          (>= (vstd!seq.Seq.len.? $ (UINT 8) bytes!) 4)
          (vstd!utf8.is_leading_byte_width_4.? (vstd!seq.Seq.index.? $ (UINT 8) bytes! (I 0)))
         )
         (vstd!utf8.is_continuation_byte.? (vstd!seq.Seq.index.? $ (UINT 8) bytes! (I 1)))
        )
        (vstd!utf8.is_continuation_byte.? (vstd!seq.Seq.index.? $ (UINT 8) bytes! (I 2)))
       )
       (vstd!utf8.is_continuation_byte.? (vstd!seq.Seq.index.? $ (UINT 8) bytes! (I 3)))
    )))
    :pattern ((vstd!utf8.valid_leading_and_continuation_bytes_first_codepoint.? bytes!))
    :qid internal_vstd!utf8.valid_leading_and_continuation_bytes_first_codepoint.?_definition
    :skolemid skolem_internal_vstd!utf8.valid_leading_and_continuation_bytes_first_codepoint.?_definition
))))

;; Function-Axioms vstd::utf8::not_overlong_encoding
(assert
 (fuel_bool_default fuel%vstd!utf8.not_overlong_encoding.)
)
(assert
 (=>
  (fuel_bool fuel%vstd!utf8.not_overlong_encoding.)
  (forall ((codepoint! Poly) (len! Poly)) (!
    (= (vstd!utf8.not_overlong_encoding.? codepoint! len!) (and
      (and
       (=>
        (= (%I len!) 2)
        (<= 128 (%I codepoint!))
       )
       (=>
        (= (%I len!) 3)
        (<= 2048 (%I codepoint!))
      ))
      (=>
       (= (%I len!) 4)
       (let
        ((tmp%%$ 65536))
        (let
         ((tmp%%$1 (%I codepoint!)))
         (let
          ((tmp%%$2 1114111))
          (and
           (<= tmp%%$ tmp%%$1)
           (<= tmp%%$1 tmp%%$2)
    )))))))
    :pattern ((vstd!utf8.not_overlong_encoding.? codepoint! len!))
    :qid internal_vstd!utf8.not_overlong_encoding.?_definition
    :skolemid skolem_internal_vstd!utf8.not_overlong_encoding.?_definition
))))

;; Function-Specs vstd::utf8::leading_bits_width_1
(declare-fun req%vstd!utf8.leading_bits_width_1. (Poly) Bool)
(declare-const %%global_location_label%%18 Bool)
(assert
 (forall ((byte! Poly)) (!
   (= (req%vstd!utf8.leading_bits_width_1. byte!) (=>
     %%global_location_label%%18
     (vstd!utf8.is_leading_byte_width_1.? byte!)
   ))
   :pattern ((req%vstd!utf8.leading_bits_width_1. byte!))
   :qid internal_req__vstd!utf8.leading_bits_width_1._definition
   :skolemid skolem_internal_req__vstd!utf8.leading_bits_width_1._definition
)))

;; Function-Axioms vstd::utf8::leading_bits_width_1
(assert
 (fuel_bool_default fuel%vstd!utf8.leading_bits_width_1.)
)
(assert
 (=>
  (fuel_bool fuel%vstd!utf8.leading_bits_width_1.)
  (forall ((byte! Poly)) (!
    (= (vstd!utf8.leading_bits_width_1.? byte!) (uClip 32 (uClip 8 (bitand (I (%I byte!))
        (I 127)
    ))))
    :pattern ((vstd!utf8.leading_bits_width_1.? byte!))
    :qid internal_vstd!utf8.leading_bits_width_1.?_definition
    :skolemid skolem_internal_vstd!utf8.leading_bits_width_1.?_definition
))))
(assert
 (forall ((byte! Poly)) (!
   (=>
    (has_type byte! (UINT 8))
    (uInv 32 (vstd!utf8.leading_bits_width_1.? byte!))
   )
   :pattern ((vstd!utf8.leading_bits_width_1.? byte!))
   :qid internal_vstd!utf8.leading_bits_width_1.?_pre_post_definition
   :skolemid skolem_internal_vstd!utf8.leading_bits_width_1.?_pre_post_definition
)))

;; Function-Specs vstd::utf8::codepoint_width_1
(declare-fun req%vstd!utf8.codepoint_width_1. (Poly) Bool)
(declare-const %%global_location_label%%19 Bool)
(assert
 (forall ((byte1! Poly)) (!
   (= (req%vstd!utf8.codepoint_width_1. byte1!) (=>
     %%global_location_label%%19
     (vstd!utf8.is_leading_byte_width_1.? byte1!)
   ))
   :pattern ((req%vstd!utf8.codepoint_width_1. byte1!))
   :qid internal_req__vstd!utf8.codepoint_width_1._definition
   :skolemid skolem_internal_req__vstd!utf8.codepoint_width_1._definition
)))

;; Function-Axioms vstd::utf8::codepoint_width_1
(assert
 (fuel_bool_default fuel%vstd!utf8.codepoint_width_1.)
)
(assert
 (=>
  (fuel_bool fuel%vstd!utf8.codepoint_width_1.)
  (forall ((byte1! Poly)) (!
    (= (vstd!utf8.codepoint_width_1.? byte1!) (vstd!utf8.leading_bits_width_1.? byte1!))
    :pattern ((vstd!utf8.codepoint_width_1.? byte1!))
    :qid internal_vstd!utf8.codepoint_width_1.?_definition
    :skolemid skolem_internal_vstd!utf8.codepoint_width_1.?_definition
))))
(assert
 (forall ((byte1! Poly)) (!
   (=>
    (has_type byte1! (UINT 8))
    (uInv 32 (vstd!utf8.codepoint_width_1.? byte1!))
   )
   :pattern ((vstd!utf8.codepoint_width_1.? byte1!))
   :qid internal_vstd!utf8.codepoint_width_1.?_pre_post_definition
   :skolemid skolem_internal_vstd!utf8.codepoint_width_1.?_pre_post_definition
)))

;; Function-Specs vstd::utf8::leading_bits_width_2
(declare-fun req%vstd!utf8.leading_bits_width_2. (Poly) Bool)
(declare-const %%global_location_label%%20 Bool)
(assert
 (forall ((byte! Poly)) (!
   (= (req%vstd!utf8.leading_bits_width_2. byte!) (=>
     %%global_location_label%%20
     (vstd!utf8.is_leading_byte_width_2.? byte!)
   ))
   :pattern ((req%vstd!utf8.leading_bits_width_2. byte!))
   :qid internal_req__vstd!utf8.leading_bits_width_2._definition
   :skolemid skolem_internal_req__vstd!utf8.leading_bits_width_2._definition
)))

;; Function-Axioms vstd::utf8::leading_bits_width_2
(assert
 (fuel_bool_default fuel%vstd!utf8.leading_bits_width_2.)
)
(assert
 (=>
  (fuel_bool fuel%vstd!utf8.leading_bits_width_2.)
  (forall ((byte! Poly)) (!
    (= (vstd!utf8.leading_bits_width_2.? byte!) (uClip 32 (uClip 8 (bitand (I (%I byte!))
        (I 31)
    ))))
    :pattern ((vstd!utf8.leading_bits_width_2.? byte!))
    :qid internal_vstd!utf8.leading_bits_width_2.?_definition
    :skolemid skolem_internal_vstd!utf8.leading_bits_width_2.?_definition
))))
(assert
 (forall ((byte! Poly)) (!
   (=>
    (has_type byte! (UINT 8))
    (uInv 32 (vstd!utf8.leading_bits_width_2.? byte!))
   )
   :pattern ((vstd!utf8.leading_bits_width_2.? byte!))
   :qid internal_vstd!utf8.leading_bits_width_2.?_pre_post_definition
   :skolemid skolem_internal_vstd!utf8.leading_bits_width_2.?_pre_post_definition
)))

;; Function-Specs vstd::utf8::continuation_bits
(declare-fun req%vstd!utf8.continuation_bits. (Poly) Bool)
(declare-const %%global_location_label%%21 Bool)
(assert
 (forall ((byte! Poly)) (!
   (= (req%vstd!utf8.continuation_bits. byte!) (=>
     %%global_location_label%%21
     (vstd!utf8.is_continuation_byte.? byte!)
   ))
   :pattern ((req%vstd!utf8.continuation_bits. byte!))
   :qid internal_req__vstd!utf8.continuation_bits._definition
   :skolemid skolem_internal_req__vstd!utf8.continuation_bits._definition
)))

;; Function-Axioms vstd::utf8::continuation_bits
(assert
 (fuel_bool_default fuel%vstd!utf8.continuation_bits.)
)
(assert
 (=>
  (fuel_bool fuel%vstd!utf8.continuation_bits.)
  (forall ((byte! Poly)) (!
    (= (vstd!utf8.continuation_bits.? byte!) (uClip 32 (uClip 8 (bitand (I (%I byte!)) (I
         63
    )))))
    :pattern ((vstd!utf8.continuation_bits.? byte!))
    :qid internal_vstd!utf8.continuation_bits.?_definition
    :skolemid skolem_internal_vstd!utf8.continuation_bits.?_definition
))))
(assert
 (forall ((byte! Poly)) (!
   (=>
    (has_type byte! (UINT 8))
    (uInv 32 (vstd!utf8.continuation_bits.? byte!))
   )
   :pattern ((vstd!utf8.continuation_bits.? byte!))
   :qid internal_vstd!utf8.continuation_bits.?_pre_post_definition
   :skolemid skolem_internal_vstd!utf8.continuation_bits.?_pre_post_definition
)))

;; Function-Specs vstd::utf8::codepoint_width_2
(declare-fun req%vstd!utf8.codepoint_width_2. (Poly Poly) Bool)
(declare-const %%global_location_label%%22 Bool)
(declare-const %%global_location_label%%23 Bool)
(assert
 (forall ((byte1! Poly) (byte2! Poly)) (!
   (= (req%vstd!utf8.codepoint_width_2. byte1! byte2!) (and
     (=>
      %%global_location_label%%22
      (vstd!utf8.is_leading_byte_width_2.? byte1!)
     )
     (=>
      %%global_location_label%%23
      (vstd!utf8.is_continuation_byte.? byte2!)
   )))
   :pattern ((req%vstd!utf8.codepoint_width_2. byte1! byte2!))
   :qid internal_req__vstd!utf8.codepoint_width_2._definition
   :skolemid skolem_internal_req__vstd!utf8.codepoint_width_2._definition
)))

;; Function-Axioms vstd::utf8::codepoint_width_2
(assert
 (fuel_bool_default fuel%vstd!utf8.codepoint_width_2.)
)
(assert
 (=>
  (fuel_bool fuel%vstd!utf8.codepoint_width_2.)
  (forall ((byte1! Poly) (byte2! Poly)) (!
    (= (vstd!utf8.codepoint_width_2.? byte1! byte2!) (uClip 32 (bitor (I (uClip 32 (bitshl
          (I (vstd!utf8.leading_bits_width_2.? byte1!)) (I 6)
        ))
       ) (I (vstd!utf8.continuation_bits.? byte2!))
    )))
    :pattern ((vstd!utf8.codepoint_width_2.? byte1! byte2!))
    :qid internal_vstd!utf8.codepoint_width_2.?_definition
    :skolemid skolem_internal_vstd!utf8.codepoint_width_2.?_definition
))))
(assert
 (forall ((byte1! Poly) (byte2! Poly)) (!
   (=>
    (and
     (has_type byte1! (UINT 8))
     (has_type byte2! (UINT 8))
    )
    (uInv 32 (vstd!utf8.codepoint_width_2.? byte1! byte2!))
   )
   :pattern ((vstd!utf8.codepoint_width_2.? byte1! byte2!))
   :qid internal_vstd!utf8.codepoint_width_2.?_pre_post_definition
   :skolemid skolem_internal_vstd!utf8.codepoint_width_2.?_pre_post_definition
)))

;; Function-Specs vstd::utf8::leading_bits_width_3
(declare-fun req%vstd!utf8.leading_bits_width_3. (Poly) Bool)
(declare-const %%global_location_label%%24 Bool)
(assert
 (forall ((byte! Poly)) (!
   (= (req%vstd!utf8.leading_bits_width_3. byte!) (=>
     %%global_location_label%%24
     (vstd!utf8.is_leading_byte_width_3.? byte!)
   ))
   :pattern ((req%vstd!utf8.leading_bits_width_3. byte!))
   :qid internal_req__vstd!utf8.leading_bits_width_3._definition
   :skolemid skolem_internal_req__vstd!utf8.leading_bits_width_3._definition
)))

;; Function-Axioms vstd::utf8::leading_bits_width_3
(assert
 (fuel_bool_default fuel%vstd!utf8.leading_bits_width_3.)
)
(assert
 (=>
  (fuel_bool fuel%vstd!utf8.leading_bits_width_3.)
  (forall ((byte! Poly)) (!
    (= (vstd!utf8.leading_bits_width_3.? byte!) (uClip 32 (uClip 8 (bitand (I (%I byte!))
        (I 15)
    ))))
    :pattern ((vstd!utf8.leading_bits_width_3.? byte!))
    :qid internal_vstd!utf8.leading_bits_width_3.?_definition
    :skolemid skolem_internal_vstd!utf8.leading_bits_width_3.?_definition
))))
(assert
 (forall ((byte! Poly)) (!
   (=>
    (has_type byte! (UINT 8))
    (uInv 32 (vstd!utf8.leading_bits_width_3.? byte!))
   )
   :pattern ((vstd!utf8.leading_bits_width_3.? byte!))
   :qid internal_vstd!utf8.leading_bits_width_3.?_pre_post_definition
   :skolemid skolem_internal_vstd!utf8.leading_bits_width_3.?_pre_post_definition
)))

;; Function-Specs vstd::utf8::codepoint_width_3
(declare-fun req%vstd!utf8.codepoint_width_3. (Poly Poly Poly) Bool)
(declare-const %%global_location_label%%25 Bool)
(declare-const %%global_location_label%%26 Bool)
(declare-const %%global_location_label%%27 Bool)
(assert
 (forall ((byte1! Poly) (byte2! Poly) (byte3! Poly)) (!
   (= (req%vstd!utf8.codepoint_width_3. byte1! byte2! byte3!) (and
     (=>
      %%global_location_label%%25
      (vstd!utf8.is_leading_byte_width_3.? byte1!)
     )
     (=>
      %%global_location_label%%26
      (vstd!utf8.is_continuation_byte.? byte2!)
     )
     (=>
      %%global_location_label%%27
      (vstd!utf8.is_continuation_byte.? byte3!)
   )))
   :pattern ((req%vstd!utf8.codepoint_width_3. byte1! byte2! byte3!))
   :qid internal_req__vstd!utf8.codepoint_width_3._definition
   :skolemid skolem_internal_req__vstd!utf8.codepoint_width_3._definition
)))

;; Function-Axioms vstd::utf8::codepoint_width_3
(assert
 (fuel_bool_default fuel%vstd!utf8.codepoint_width_3.)
)
(assert
 (=>
  (fuel_bool fuel%vstd!utf8.codepoint_width_3.)
  (forall ((byte1! Poly) (byte2! Poly) (byte3! Poly)) (!
    (= (vstd!utf8.codepoint_width_3.? byte1! byte2! byte3!) (uClip 32 (bitor (I (uClip 32
         (bitor (I (uClip 32 (bitshl (I (vstd!utf8.leading_bits_width_3.? byte1!)) (I 12))))
          (I (uClip 32 (bitshl (I (vstd!utf8.continuation_bits.? byte2!)) (I 6))))
        ))
       ) (I (vstd!utf8.continuation_bits.? byte3!))
    )))
    :pattern ((vstd!utf8.codepoint_width_3.? byte1! byte2! byte3!))
    :qid internal_vstd!utf8.codepoint_width_3.?_definition
    :skolemid skolem_internal_vstd!utf8.codepoint_width_3.?_definition
))))
(assert
 (forall ((byte1! Poly) (byte2! Poly) (byte3! Poly)) (!
   (=>
    (and
     (has_type byte1! (UINT 8))
     (has_type byte2! (UINT 8))
     (has_type byte3! (UINT 8))
    )
    (uInv 32 (vstd!utf8.codepoint_width_3.? byte1! byte2! byte3!))
   )
   :pattern ((vstd!utf8.codepoint_width_3.? byte1! byte2! byte3!))
   :qid internal_vstd!utf8.codepoint_width_3.?_pre_post_definition
   :skolemid skolem_internal_vstd!utf8.codepoint_width_3.?_pre_post_definition
)))

;; Function-Specs vstd::utf8::leading_bits_width_4
(declare-fun req%vstd!utf8.leading_bits_width_4. (Poly) Bool)
(declare-const %%global_location_label%%28 Bool)
(assert
 (forall ((byte! Poly)) (!
   (= (req%vstd!utf8.leading_bits_width_4. byte!) (=>
     %%global_location_label%%28
     (vstd!utf8.is_leading_byte_width_4.? byte!)
   ))
   :pattern ((req%vstd!utf8.leading_bits_width_4. byte!))
   :qid internal_req__vstd!utf8.leading_bits_width_4._definition
   :skolemid skolem_internal_req__vstd!utf8.leading_bits_width_4._definition
)))

;; Function-Axioms vstd::utf8::leading_bits_width_4
(assert
 (fuel_bool_default fuel%vstd!utf8.leading_bits_width_4.)
)
(assert
 (=>
  (fuel_bool fuel%vstd!utf8.leading_bits_width_4.)
  (forall ((byte! Poly)) (!
    (= (vstd!utf8.leading_bits_width_4.? byte!) (uClip 32 (uClip 8 (bitand (I (%I byte!))
        (I 7)
    ))))
    :pattern ((vstd!utf8.leading_bits_width_4.? byte!))
    :qid internal_vstd!utf8.leading_bits_width_4.?_definition
    :skolemid skolem_internal_vstd!utf8.leading_bits_width_4.?_definition
))))
(assert
 (forall ((byte! Poly)) (!
   (=>
    (has_type byte! (UINT 8))
    (uInv 32 (vstd!utf8.leading_bits_width_4.? byte!))
   )
   :pattern ((vstd!utf8.leading_bits_width_4.? byte!))
   :qid internal_vstd!utf8.leading_bits_width_4.?_pre_post_definition
   :skolemid skolem_internal_vstd!utf8.leading_bits_width_4.?_pre_post_definition
)))

;; Function-Specs vstd::utf8::codepoint_width_4
(declare-fun req%vstd!utf8.codepoint_width_4. (Poly Poly Poly Poly) Bool)
(declare-const %%global_location_label%%29 Bool)
(declare-const %%global_location_label%%30 Bool)
(declare-const %%global_location_label%%31 Bool)
(declare-const %%global_location_label%%32 Bool)
(assert
 (forall ((byte1! Poly) (byte2! Poly) (byte3! Poly) (byte4! Poly)) (!
   (= (req%vstd!utf8.codepoint_width_4. byte1! byte2! byte3! byte4!) (and
     (=>
      %%global_location_label%%29
      (vstd!utf8.is_leading_byte_width_4.? byte1!)
     )
     (=>
      %%global_location_label%%30
      (vstd!utf8.is_continuation_byte.? byte2!)
     )
     (=>
      %%global_location_label%%31
      (vstd!utf8.is_continuation_byte.? byte3!)
     )
     (=>
      %%global_location_label%%32
      (vstd!utf8.is_continuation_byte.? byte4!)
   )))
   :pattern ((req%vstd!utf8.codepoint_width_4. byte1! byte2! byte3! byte4!))
   :qid internal_req__vstd!utf8.codepoint_width_4._definition
   :skolemid skolem_internal_req__vstd!utf8.codepoint_width_4._definition
)))

;; Function-Axioms vstd::utf8::codepoint_width_4
(assert
 (fuel_bool_default fuel%vstd!utf8.codepoint_width_4.)
)
(assert
 (=>
  (fuel_bool fuel%vstd!utf8.codepoint_width_4.)
  (forall ((byte1! Poly) (byte2! Poly) (byte3! Poly) (byte4! Poly)) (!
    (= (vstd!utf8.codepoint_width_4.? byte1! byte2! byte3! byte4!) (uClip 32 (bitor (I (uClip
         32 (bitor (I (uClip 32 (bitor (I (uClip 32 (bitshl (I (vstd!utf8.leading_bits_width_4.? byte1!))
                (I 18)
              ))
             ) (I (uClip 32 (bitshl (I (vstd!utf8.continuation_bits.? byte2!)) (I 12))))
           ))
          ) (I (uClip 32 (bitshl (I (vstd!utf8.continuation_bits.? byte3!)) (I 6))))
        ))
       ) (I (vstd!utf8.continuation_bits.? byte4!))
    )))
    :pattern ((vstd!utf8.codepoint_width_4.? byte1! byte2! byte3! byte4!))
    :qid internal_vstd!utf8.codepoint_width_4.?_definition
    :skolemid skolem_internal_vstd!utf8.codepoint_width_4.?_definition
))))
(assert
 (forall ((byte1! Poly) (byte2! Poly) (byte3! Poly) (byte4! Poly)) (!
   (=>
    (and
     (has_type byte1! (UINT 8))
     (has_type byte2! (UINT 8))
     (has_type byte3! (UINT 8))
     (has_type byte4! (UINT 8))
    )
    (uInv 32 (vstd!utf8.codepoint_width_4.? byte1! byte2! byte3! byte4!))
   )
   :pattern ((vstd!utf8.codepoint_width_4.? byte1! byte2! byte3! byte4!))
   :qid internal_vstd!utf8.codepoint_width_4.?_pre_post_definition
   :skolemid skolem_internal_vstd!utf8.codepoint_width_4.?_pre_post_definition
)))

;; Function-Specs vstd::utf8::decode_first_codepoint
(declare-fun req%vstd!utf8.decode_first_codepoint. (Poly) Bool)
(declare-const %%global_location_label%%33 Bool)
(assert
 (forall ((bytes! Poly)) (!
   (= (req%vstd!utf8.decode_first_codepoint. bytes!) (=>
     %%global_location_label%%33
     (vstd!utf8.valid_leading_and_continuation_bytes_first_codepoint.? bytes!)
   ))
   :pattern ((req%vstd!utf8.decode_first_codepoint. bytes!))
   :qid internal_req__vstd!utf8.decode_first_codepoint._definition
   :skolemid skolem_internal_req__vstd!utf8.decode_first_codepoint._definition
)))

;; Function-Axioms vstd::utf8::decode_first_codepoint
(assert
 (fuel_bool_default fuel%vstd!utf8.decode_first_codepoint.)
)
(assert
 (=>
  (fuel_bool fuel%vstd!utf8.decode_first_codepoint.)
  (forall ((bytes! Poly)) (!
    (= (vstd!utf8.decode_first_codepoint.? bytes!) (ite
      (vstd!utf8.is_leading_byte_width_1.? (vstd!seq.Seq.index.? $ (UINT 8) bytes! (I 0)))
      (vstd!utf8.codepoint_width_1.? (vstd!seq.Seq.index.? $ (UINT 8) bytes! (I 0)))
      (ite
       (vstd!utf8.is_leading_byte_width_2.? (vstd!seq.Seq.index.? $ (UINT 8) bytes! (I 0)))
       (vstd!utf8.codepoint_width_2.? (vstd!seq.Seq.index.? $ (UINT 8) bytes! (I 0)) (vstd!seq.Seq.index.?
         $ (UINT 8) bytes! (I 1)
       ))
       (ite
        (vstd!utf8.is_leading_byte_width_3.? (vstd!seq.Seq.index.? $ (UINT 8) bytes! (I 0)))
        (vstd!utf8.codepoint_width_3.? (vstd!seq.Seq.index.? $ (UINT 8) bytes! (I 0)) (vstd!seq.Seq.index.?
          $ (UINT 8) bytes! (I 1)
         ) (vstd!seq.Seq.index.? $ (UINT 8) bytes! (I 2))
        )
        (vstd!utf8.codepoint_width_4.? (vstd!seq.Seq.index.? $ (UINT 8) bytes! (I 0)) (vstd!seq.Seq.index.?
          $ (UINT 8) bytes! (I 1)
         ) (vstd!seq.Seq.index.? $ (UINT 8) bytes! (I 2)) (vstd!seq.Seq.index.? $ (UINT 8)
          bytes! (I 3)
    ))))))
    :pattern ((vstd!utf8.decode_first_codepoint.? bytes!))
    :qid internal_vstd!utf8.decode_first_codepoint.?_definition
    :skolemid skolem_internal_vstd!utf8.decode_first_codepoint.?_definition
))))
(assert
 (forall ((bytes! Poly)) (!
   (=>
    (has_type bytes! (TYPE%vstd!seq.Seq. $ (UINT 8)))
    (uInv 32 (vstd!utf8.decode_first_codepoint.? bytes!))
   )
   :pattern ((vstd!utf8.decode_first_codepoint.? bytes!))
   :qid internal_vstd!utf8.decode_first_codepoint.?_pre_post_definition
   :skolemid skolem_internal_vstd!utf8.decode_first_codepoint.?_pre_post_definition
)))

;; Function-Specs vstd::utf8::length_of_first_codepoint
(declare-fun req%vstd!utf8.length_of_first_codepoint. (Poly) Bool)
(declare-const %%global_location_label%%34 Bool)
(assert
 (forall ((bytes! Poly)) (!
   (= (req%vstd!utf8.length_of_first_codepoint. bytes!) (=>
     %%global_location_label%%34
     (vstd!utf8.valid_leading_and_continuation_bytes_first_codepoint.? bytes!)
   ))
   :pattern ((req%vstd!utf8.length_of_first_codepoint. bytes!))
   :qid internal_req__vstd!utf8.length_of_first_codepoint._definition
   :skolemid skolem_internal_req__vstd!utf8.length_of_first_codepoint._definition
)))

;; Function-Axioms vstd::utf8::length_of_first_codepoint
(assert
 (fuel_bool_default fuel%vstd!utf8.length_of_first_codepoint.)
)
(assert
 (=>
  (fuel_bool fuel%vstd!utf8.length_of_first_codepoint.)
  (forall ((bytes! Poly)) (!
    (= (vstd!utf8.length_of_first_codepoint.? bytes!) (ite
      (vstd!utf8.is_leading_byte_width_1.? (vstd!seq.Seq.index.? $ (UINT 8) bytes! (I 0)))
      1
      (ite
       (vstd!utf8.is_leading_byte_width_2.? (vstd!seq.Seq.index.? $ (UINT 8) bytes! (I 0)))
       2
       (ite
        (vstd!utf8.is_leading_byte_width_3.? (vstd!seq.Seq.index.? $ (UINT 8) bytes! (I 0)))
        3
        4
    ))))
    :pattern ((vstd!utf8.length_of_first_codepoint.? bytes!))
    :qid internal_vstd!utf8.length_of_first_codepoint.?_definition
    :skolemid skolem_internal_vstd!utf8.length_of_first_codepoint.?_definition
))))

;; Function-Axioms vstd::utf8::not_surrogate
(assert
 (fuel_bool_default fuel%vstd!utf8.not_surrogate.)
)
(assert
 (=>
  (fuel_bool fuel%vstd!utf8.not_surrogate.)
  (forall ((codepoint! Poly)) (!
    (= (vstd!utf8.not_surrogate.? codepoint!) (not (let
       ((tmp%%$ 55296))
       (let
        ((tmp%%$1 (%I codepoint!)))
        (let
         ((tmp%%$2 57343))
         (and
          (<= tmp%%$ tmp%%$1)
          (<= tmp%%$1 tmp%%$2)
    ))))))
    :pattern ((vstd!utf8.not_surrogate.? codepoint!))
    :qid internal_vstd!utf8.not_surrogate.?_definition
    :skolemid skolem_internal_vstd!utf8.not_surrogate.?_definition
))))

;; Function-Axioms vstd::utf8::valid_first_scalar
(assert
 (fuel_bool_default fuel%vstd!utf8.valid_first_scalar.)
)
(assert
 (=>
  (fuel_bool fuel%vstd!utf8.valid_first_scalar.)
  (forall ((bytes! Poly)) (!
    (= (vstd!utf8.valid_first_scalar.? bytes!) (and
      (and
       (vstd!utf8.valid_leading_and_continuation_bytes_first_codepoint.? bytes!)
       (vstd!utf8.not_overlong_encoding.? (I (vstd!utf8.decode_first_codepoint.? bytes!))
        (I (vstd!utf8.length_of_first_codepoint.? bytes!))
      ))
      (vstd!utf8.not_surrogate.? (I (vstd!utf8.decode_first_codepoint.? bytes!)))
    ))
    :pattern ((vstd!utf8.valid_first_scalar.? bytes!))
    :qid internal_vstd!utf8.valid_first_scalar.?_definition
    :skolemid skolem_internal_vstd!utf8.valid_first_scalar.?_definition
))))

;; Function-Specs vstd::utf8::length_of_first_scalar
(declare-fun req%vstd!utf8.length_of_first_scalar. (Poly) Bool)
(declare-const %%global_location_label%%35 Bool)
(assert
 (forall ((bytes! Poly)) (!
   (= (req%vstd!utf8.length_of_first_scalar. bytes!) (=>
     %%global_location_label%%35
     (vstd!utf8.valid_first_scalar.? bytes!)
   ))
   :pattern ((req%vstd!utf8.length_of_first_scalar. bytes!))
   :qid internal_req__vstd!utf8.length_of_first_scalar._definition
   :skolemid skolem_internal_req__vstd!utf8.length_of_first_scalar._definition
)))

;; Function-Axioms vstd::utf8::length_of_first_scalar
(assert
 (fuel_bool_default fuel%vstd!utf8.length_of_first_scalar.)
)
(assert
 (=>
  (fuel_bool fuel%vstd!utf8.length_of_first_scalar.)
  (forall ((bytes! Poly)) (!
    (= (vstd!utf8.length_of_first_scalar.? bytes!) (vstd!utf8.length_of_first_codepoint.?
      bytes!
    ))
    :pattern ((vstd!utf8.length_of_first_scalar.? bytes!))
    :qid internal_vstd!utf8.length_of_first_scalar.?_definition
    :skolemid skolem_internal_vstd!utf8.length_of_first_scalar.?_definition
))))

;; Function-Specs vstd::utf8::pop_first_scalar
(declare-fun req%vstd!utf8.pop_first_scalar. (Poly) Bool)
(declare-const %%global_location_label%%36 Bool)
(assert
 (forall ((bytes! Poly)) (!
   (= (req%vstd!utf8.pop_first_scalar. bytes!) (=>
     %%global_location_label%%36
     (vstd!utf8.valid_first_scalar.? bytes!)
   ))
   :pattern ((req%vstd!utf8.pop_first_scalar. bytes!))
   :qid internal_req__vstd!utf8.pop_first_scalar._definition
   :skolemid skolem_internal_req__vstd!utf8.pop_first_scalar._definition
)))

;; Function-Axioms vstd::utf8::pop_first_scalar
(assert
 (fuel_bool_default fuel%vstd!utf8.pop_first_scalar.)
)
(assert
 (=>
  (fuel_bool fuel%vstd!utf8.pop_first_scalar.)
  (forall ((bytes! Poly)) (!
    (= (vstd!utf8.pop_first_scalar.? bytes!) (%Poly%vstd!seq.Seq<u8.>. (vstd!seq.Seq.subrange.?
       $ (UINT 8) bytes! (I (vstd!utf8.length_of_first_scalar.? bytes!)) (I (vstd!seq.Seq.len.?
         $ (UINT 8) bytes!
    )))))
    :pattern ((vstd!utf8.pop_first_scalar.? bytes!))
    :qid internal_vstd!utf8.pop_first_scalar.?_definition
    :skolemid skolem_internal_vstd!utf8.pop_first_scalar.?_definition
))))

;; Function-Axioms vstd::utf8::valid_utf8
(assert
 (fuel_bool_default fuel%vstd!utf8.valid_utf8.)
)
(declare-const fuel_nat%vstd!utf8.valid_utf8. Fuel)
(assert
 (forall ((bytes! Poly) (fuel% Fuel)) (!
   (= (vstd!utf8.rec%valid_utf8.? bytes! fuel%) (vstd!utf8.rec%valid_utf8.? bytes! zero))
   :pattern ((vstd!utf8.rec%valid_utf8.? bytes! fuel%))
   :qid internal_vstd!utf8.valid_utf8._fuel_to_zero_definition
   :skolemid skolem_internal_vstd!utf8.valid_utf8._fuel_to_zero_definition
)))
(assert
 (forall ((bytes! Poly) (fuel% Fuel)) (!
   (=>
    (has_type bytes! (TYPE%vstd!seq.Seq. $ (UINT 8)))
    (= (vstd!utf8.rec%valid_utf8.? bytes! (succ fuel%)) (=>
      (not (= (vstd!seq.Seq.len.? $ (UINT 8) bytes!) 0))
      (and
       (vstd!utf8.valid_first_scalar.? bytes!)
       (vstd!utf8.rec%valid_utf8.? (Poly%vstd!seq.Seq<u8.>. (vstd!utf8.pop_first_scalar.? bytes!))
        fuel%
   )))))
   :pattern ((vstd!utf8.rec%valid_utf8.? bytes! (succ fuel%)))
   :qid internal_vstd!utf8.valid_utf8._fuel_to_body_definition
   :skolemid skolem_internal_vstd!utf8.valid_utf8._fuel_to_body_definition
)))
(assert
 (=>
  (fuel_bool fuel%vstd!utf8.valid_utf8.)
  (forall ((bytes! Poly)) (!
    (=>
     (has_type bytes! (TYPE%vstd!seq.Seq. $ (UINT 8)))
     (= (vstd!utf8.valid_utf8.? bytes!) (vstd!utf8.rec%valid_utf8.? bytes! (succ fuel_nat%vstd!utf8.valid_utf8.)))
    )
    :pattern ((vstd!utf8.valid_utf8.? bytes!))
    :qid internal_vstd!utf8.valid_utf8.?_definition
    :skolemid skolem_internal_vstd!utf8.valid_utf8.?_definition
))))

;; Function-Specs vstd::utf8::is_char_boundary
(declare-fun req%vstd!utf8.is_char_boundary. (Poly Poly) Bool)
(declare-const %%global_location_label%%37 Bool)
(declare-const %%global_location_label%%38 Bool)
(assert
 (forall ((bytes! Poly) (index! Poly)) (!
   (= (req%vstd!utf8.is_char_boundary. bytes! index!) (and
     (=>
      %%global_location_label%%37
      (vstd!utf8.valid_utf8.? bytes!)
     )
     (=>
      %%global_location_label%%38
      (vstd!utf8.valid_utf8.? bytes!)
   )))
   :pattern ((req%vstd!utf8.is_char_boundary. bytes! index!))
   :qid internal_req__vstd!utf8.is_char_boundary._definition
   :skolemid skolem_internal_req__vstd!utf8.is_char_boundary._definition
)))

;; Function-Axioms vstd::utf8::is_char_boundary
(assert
 (fuel_bool_default fuel%vstd!utf8.is_char_boundary.)
)
(declare-const fuel_nat%vstd!utf8.is_char_boundary. Fuel)
(assert
 (forall ((bytes! Poly) (index! Poly) (fuel% Fuel)) (!
   (= (vstd!utf8.rec%is_char_boundary.? bytes! index! fuel%) (vstd!utf8.rec%is_char_boundary.?
     bytes! index! zero
   ))
   :pattern ((vstd!utf8.rec%is_char_boundary.? bytes! index! fuel%))
   :qid internal_vstd!utf8.is_char_boundary._fuel_to_zero_definition
   :skolemid skolem_internal_vstd!utf8.is_char_boundary._fuel_to_zero_definition
)))
(assert
 (forall ((bytes! Poly) (index! Poly) (fuel% Fuel)) (!
   (=>
    (and
     (has_type bytes! (TYPE%vstd!seq.Seq. $ (UINT 8)))
     (has_type index! INT)
     (vstd!utf8.valid_utf8.? bytes!)
    )
    (= (vstd!utf8.rec%is_char_boundary.? bytes! index! (succ fuel%)) (=>
      (not (= (%I index!) 0))
      (and
       (not (or
         (< (%I index!) 0)
         (< (vstd!seq.Seq.len.? $ (UINT 8) bytes!) (%I index!))
       ))
       (vstd!utf8.rec%is_char_boundary.? (Poly%vstd!seq.Seq<u8.>. (vstd!utf8.pop_first_scalar.?
          bytes!
         )
        ) (I (Sub (%I index!) (vstd!utf8.length_of_first_scalar.? bytes!))) fuel%
   )))))
   :pattern ((vstd!utf8.rec%is_char_boundary.? bytes! index! (succ fuel%)))
   :qid internal_vstd!utf8.is_char_boundary._fuel_to_body_definition
   :skolemid skolem_internal_vstd!utf8.is_char_boundary._fuel_to_body_definition
)))
(assert
 (=>
  (fuel_bool fuel%vstd!utf8.is_char_boundary.)
  (forall ((bytes! Poly) (index! Poly)) (!
    (=>
     (and
      (has_type bytes! (TYPE%vstd!seq.Seq. $ (UINT 8)))
      (has_type index! INT)
      (vstd!utf8.valid_utf8.? bytes!)
     )
     (= (vstd!utf8.is_char_boundary.? bytes! index!) (vstd!utf8.rec%is_char_boundary.? bytes!
       index! (succ fuel_nat%vstd!utf8.is_char_boundary.)
    )))
    :pattern ((vstd!utf8.is_char_boundary.? bytes! index!))
    :qid internal_vstd!utf8.is_char_boundary.?_definition
    :skolemid skolem_internal_vstd!utf8.is_char_boundary.?_definition
))))

;; Trait-Impl-Axiom
(assert
 (tr_bound%vstd!string.StringSliceAdditionalSpecFns. $slice STRSLICE)
)

;; Function-Axioms vstd::string::str_slice_in_bounds
(assert
 (fuel_bool_default fuel%vstd!string.str_slice_in_bounds.)
)
(assert
 (=>
  (fuel_bool fuel%vstd!string.str_slice_in_bounds.)
  (forall ((R&. Dcr) (R& Type) (range! Poly) (s! Poly)) (!
    (= (vstd!string.str_slice_in_bounds.? R&. R& range! s!) (and
      (and
       (vstd!std_specs.range.slice_range_valid.? R&. R& range! (I (vstd!seq.Seq.len.? $ (UINT
           8
          ) (vstd!string.StringSliceAdditionalSpecFns.spec_bytes.? $slice STRSLICE s!)
       )))
       (vstd!utf8.is_char_boundary.? (vstd!string.StringSliceAdditionalSpecFns.spec_bytes.?
         $slice STRSLICE s!
        ) (I (vstd!std_specs.range.slice_range_start.? R&. R& range!))
      ))
      (vstd!utf8.is_char_boundary.? (vstd!string.StringSliceAdditionalSpecFns.spec_bytes.?
        $slice STRSLICE s!
       ) (I (vstd!std_specs.range.slice_range_end.? R&. R& range! (I (vstd!seq.Seq.len.? $ (
            UINT 8
           ) (vstd!string.StringSliceAdditionalSpecFns.spec_bytes.? $slice STRSLICE s!)
    )))))))
    :pattern ((vstd!string.str_slice_in_bounds.? R&. R& range! s!))
    :qid internal_vstd!string.str_slice_in_bounds.?_definition
    :skolemid skolem_internal_vstd!string.str_slice_in_bounds.?_definition
))))

;; Function-Axioms vstd::string::str_slice_index_postcondition
(assert
 (fuel_bool_default fuel%vstd!string.str_slice_index_postcondition.)
)
(assert
 (=>
  (fuel_bool fuel%vstd!string.str_slice_index_postcondition.)
  (forall ((R&. Dcr) (R& Type) (range! Poly) (s! Poly) (r! Poly)) (!
    (= (vstd!string.str_slice_index_postcondition.? R&. R& range! s! r!) (= r! (vstd!seq.Seq.subrange.?
       $ (UINT 8) s! (I (vstd!std_specs.range.slice_range_start.? R&. R& range!)) (I (vstd!std_specs.range.slice_range_end.?
         R&. R& range! (I (vstd!seq.Seq.len.? $ (UINT 8) s!))
    )))))
    :pattern ((vstd!string.str_slice_index_postcondition.? R&. R& range! s! r!))
    :qid internal_vstd!string.str_slice_index_postcondition.?_definition
    :skolemid skolem_internal_vstd!string.str_slice_index_postcondition.?_definition
))))

;; Trait-Impl-Axiom
(assert
 (forall ((T&. Dcr) (T& Type) (VERUS_SPEC__A&. Dcr) (VERUS_SPEC__A& Type)) (!
   (=>
    (tr_bound%core!ops.range.RangeBounds. VERUS_SPEC__A&. VERUS_SPEC__A& T&. T&)
    (tr_bound%vstd!std_specs.range.RangeBoundsSpec. VERUS_SPEC__A&. VERUS_SPEC__A& T&.
     T&
   ))
   :pattern ((tr_bound%vstd!std_specs.range.RangeBoundsSpec. VERUS_SPEC__A&. VERUS_SPEC__A&
     T&. T&
   ))
   :qid internal_vstd__std_specs__range__impl&__18_trait_impl_definition
   :skolemid skolem_internal_vstd__std_specs__range__impl&__18_trait_impl_definition
)))

;; Trait-Impl-Axiom
(assert
 (forall ((T&. Dcr) (T& Type)) (!
   (=>
    (sized T&.)
    (tr_bound%core!ops.range.RangeBounds. (DST $) (TYPE%tuple%2. $ (TYPE%core!ops.range.Bound.
       T&. T&
      ) $ (TYPE%core!ops.range.Bound. T&. T&)
     ) T&. T&
   ))
   :pattern ((tr_bound%core!ops.range.RangeBounds. (DST $) (TYPE%tuple%2. $ (TYPE%core!ops.range.Bound.
       T&. T&
      ) $ (TYPE%core!ops.range.Bound. T&. T&)
     ) T&. T&
   ))
   :qid internal_core__ops__range__impl&__28_trait_impl_definition
   :skolemid skolem_internal_core__ops__range__impl&__28_trait_impl_definition
)))

;; Trait-Impl-Axiom
(assert
 (forall ((T&. Dcr) (T& Type)) (!
   (=>
    (sized T&.)
    (tr_bound%vstd!std_specs.range.RangeBoundsSpec. (DST $) (TYPE%tuple%2. $ (TYPE%core!ops.range.Bound.
       T&. T&
      ) $ (TYPE%core!ops.range.Bound. T&. T&)
     ) T&. T&
   ))
   :pattern ((tr_bound%vstd!std_specs.range.RangeBoundsSpec. (DST $) (TYPE%tuple%2. $ (
       TYPE%core!ops.range.Bound. T&. T&
      ) $ (TYPE%core!ops.range.Bound. T&. T&)
     ) T&. T&
   ))
   :qid internal_vstd__std_specs__range__impl&__11_trait_impl_definition
   :skolemid skolem_internal_vstd__std_specs__range__impl&__11_trait_impl_definition
)))

;; Function-Axioms vstd::string::impl&%10::in_bounds
(assert
 (fuel_bool_default fuel%vstd!string.impl&%10.in_bounds.)
)
(assert
 (=>
  (fuel_bool fuel%vstd!string.impl&%10.in_bounds.)
  (forall ((self! Poly) (s! Poly)) (!
    (= (vstd!slice.SliceIndexSpec.in_bounds.? (DST $) (TYPE%tuple%2. $ (TYPE%core!ops.range.Bound.
        $ USIZE
       ) $ (TYPE%core!ops.range.Bound. $ USIZE)
      ) $slice STRSLICE self! s!
     ) (B (vstd!string.str_slice_in_bounds.? (DST $) (TYPE%tuple%2. $ (TYPE%core!ops.range.Bound.
         $ USIZE
        ) $ (TYPE%core!ops.range.Bound. $ USIZE)
       ) self! s!
    )))
    :pattern ((vstd!slice.SliceIndexSpec.in_bounds.? (DST $) (TYPE%tuple%2. $ (TYPE%core!ops.range.Bound.
        $ USIZE
       ) $ (TYPE%core!ops.range.Bound. $ USIZE)
      ) $slice STRSLICE self! s!
    ))
    :qid internal_vstd!string.impl&__10.in_bounds.?_definition
    :skolemid skolem_internal_vstd!string.impl&__10.in_bounds.?_definition
))))

;; Function-Axioms vstd::string::impl&%10::index_postcondition
(assert
 (fuel_bool_default fuel%vstd!string.impl&%10.index_postcondition.)
)
(assert
 (=>
  (fuel_bool fuel%vstd!string.impl&%10.index_postcondition.)
  (forall ((self! Poly) (s! Poly) (r! Poly)) (!
    (= (vstd!slice.SliceIndexSpec.index_postcondition.? (DST $) (TYPE%tuple%2. $ (TYPE%core!ops.range.Bound.
        $ USIZE
       ) $ (TYPE%core!ops.range.Bound. $ USIZE)
      ) $slice STRSLICE self! s! r!
     ) (B (vstd!string.str_slice_index_postcondition.? (DST $) (TYPE%tuple%2. $ (TYPE%core!ops.range.Bound.
         $ USIZE
        ) $ (TYPE%core!ops.range.Bound. $ USIZE)
       ) self! (vstd!string.StringSliceAdditionalSpecFns.spec_bytes.? $slice STRSLICE s!)
       (vstd!string.StringSliceAdditionalSpecFns.spec_bytes.? $slice STRSLICE r!)
    )))
    :pattern ((vstd!slice.SliceIndexSpec.index_postcondition.? (DST $) (TYPE%tuple%2. $
       (TYPE%core!ops.range.Bound. $ USIZE) $ (TYPE%core!ops.range.Bound. $ USIZE)
      ) $slice STRSLICE self! s! r!
    ))
    :qid internal_vstd!string.impl&__10.index_postcondition.?_definition
    :skolemid skolem_internal_vstd!string.impl&__10.index_postcondition.?_definition
))))

;; Function-Axioms vstd::string::impl&%17::index_req
(assert
 (fuel_bool_default fuel%vstd!string.impl&%17.index_req.)
)
(assert
 (=>
  (fuel_bool fuel%vstd!string.impl&%17.index_req.)
  (forall ((I&. Dcr) (I& Type) (self! Poly) (index! Poly)) (!
    (=>
     (and
      (sized I&.)
      (tr_bound%vstd!slice.SliceIndexSpec. I&. I& $slice STRSLICE)
     )
     (= (vstd!std_specs.core.IndexSpec.index_req.? $slice STRSLICE I&. I& self! index!)
      (vstd!slice.SliceIndexSpec.in_bounds.? I&. I& $slice STRSLICE index! self!)
    ))
    :pattern ((vstd!std_specs.core.IndexSpec.index_req.? $slice STRSLICE I&. I& self! index!))
    :qid internal_vstd!string.impl&__17.index_req.?_definition
    :skolemid skolem_internal_vstd!string.impl&__17.index_req.?_definition
))))

;; Function-Axioms vstd::view::impl&%0::view
(assert
 (fuel_bool_default fuel%vstd!view.impl&%0.view.)
)
(assert
 (=>
  (fuel_bool fuel%vstd!view.impl&%0.view.)
  (forall ((A&. Dcr) (A& Type) (self! Poly)) (!
    (=>
     (tr_bound%vstd!view.View. A&. A&)
     (= (vstd!view.View.view.? (REF A&.) A& self!) (vstd!view.View.view.? A&. A& self!))
    )
    :pattern ((vstd!view.View.view.? (REF A&.) A& self!))
    :qid internal_vstd!view.impl&__0.view.?_definition
    :skolemid skolem_internal_vstd!view.impl&__0.view.?_definition
))))

;; Function-Axioms vstd::view::impl&%2::view
(assert
 (fuel_bool_default fuel%vstd!view.impl&%2.view.)
)
(assert
 (=>
  (fuel_bool fuel%vstd!view.impl&%2.view.)
  (forall ((A&. Dcr) (A& Type) (self! Poly)) (!
    (=>
     (tr_bound%vstd!view.View. A&. A&)
     (= (vstd!view.View.view.? (BOX $ TYPE%alloc!alloc.Global. A&.) A& self!) (vstd!view.View.view.?
       A&. A& self!
    )))
    :pattern ((vstd!view.View.view.? (BOX $ TYPE%alloc!alloc.Global. A&.) A& self!))
    :qid internal_vstd!view.impl&__2.view.?_definition
    :skolemid skolem_internal_vstd!view.impl&__2.view.?_definition
))))

;; Function-Axioms vstd::view::impl&%4::view
(assert
 (fuel_bool_default fuel%vstd!view.impl&%4.view.)
)
(assert
 (=>
  (fuel_bool fuel%vstd!view.impl&%4.view.)
  (forall ((A&. Dcr) (A& Type) (self! Poly)) (!
    (=>
     (and
      (sized A&.)
      (tr_bound%vstd!view.View. A&. A&)
     )
     (= (vstd!view.View.view.? (RC $ TYPE%alloc!alloc.Global. A&.) A& self!) (vstd!view.View.view.?
       A&. A& self!
    )))
    :pattern ((vstd!view.View.view.? (RC $ TYPE%alloc!alloc.Global. A&.) A& self!))
    :qid internal_vstd!view.impl&__4.view.?_definition
    :skolemid skolem_internal_vstd!view.impl&__4.view.?_definition
))))

;; Function-Axioms vstd::view::impl&%6::view
(assert
 (fuel_bool_default fuel%vstd!view.impl&%6.view.)
)
(assert
 (=>
  (fuel_bool fuel%vstd!view.impl&%6.view.)
  (forall ((A&. Dcr) (A& Type) (self! Poly)) (!
    (=>
     (and
      (sized A&.)
      (tr_bound%vstd!view.View. A&. A&)
     )
     (= (vstd!view.View.view.? (ARC $ TYPE%alloc!alloc.Global. A&.) A& self!) (vstd!view.View.view.?
       A&. A& self!
    )))
    :pattern ((vstd!view.View.view.? (ARC $ TYPE%alloc!alloc.Global. A&.) A& self!))
    :qid internal_vstd!view.impl&__6.view.?_definition
    :skolemid skolem_internal_vstd!view.impl&__6.view.?_definition
))))

;; Function-Axioms vstd::view::impl&%16::view
(assert
 (fuel_bool_default fuel%vstd!view.impl&%16.view.)
)
(assert
 (=>
  (fuel_bool fuel%vstd!view.impl&%16.view.)
  (forall ((self! Poly)) (!
    (= (vstd!view.View.view.? $ TYPE%tuple%0. self!) self!)
    :pattern ((vstd!view.View.view.? $ TYPE%tuple%0. self!))
    :qid internal_vstd!view.impl&__16.view.?_definition
    :skolemid skolem_internal_vstd!view.impl&__16.view.?_definition
))))

;; Function-Axioms vstd::view::impl&%18::view
(assert
 (fuel_bool_default fuel%vstd!view.impl&%18.view.)
)
(assert
 (=>
  (fuel_bool fuel%vstd!view.impl&%18.view.)
  (forall ((self! Poly)) (!
    (= (vstd!view.View.view.? $ BOOL self!) self!)
    :pattern ((vstd!view.View.view.? $ BOOL self!))
    :qid internal_vstd!view.impl&__18.view.?_definition
    :skolemid skolem_internal_vstd!view.impl&__18.view.?_definition
))))

;; Function-Axioms vstd::view::impl&%20::view
(assert
 (fuel_bool_default fuel%vstd!view.impl&%20.view.)
)
(assert
 (=>
  (fuel_bool fuel%vstd!view.impl&%20.view.)
  (forall ((self! Poly)) (!
    (= (vstd!view.View.view.? $ (UINT 8) self!) self!)
    :pattern ((vstd!view.View.view.? $ (UINT 8) self!))
    :qid internal_vstd!view.impl&__20.view.?_definition
    :skolemid skolem_internal_vstd!view.impl&__20.view.?_definition
))))

;; Function-Axioms vstd::view::impl&%22::view
(assert
 (fuel_bool_default fuel%vstd!view.impl&%22.view.)
)
(assert
 (=>
  (fuel_bool fuel%vstd!view.impl&%22.view.)
  (forall ((self! Poly)) (!
    (= (vstd!view.View.view.? $ (UINT 16) self!) self!)
    :pattern ((vstd!view.View.view.? $ (UINT 16) self!))
    :qid internal_vstd!view.impl&__22.view.?_definition
    :skolemid skolem_internal_vstd!view.impl&__22.view.?_definition
))))

;; Function-Axioms vstd::view::impl&%24::view
(assert
 (fuel_bool_default fuel%vstd!view.impl&%24.view.)
)
(assert
 (=>
  (fuel_bool fuel%vstd!view.impl&%24.view.)
  (forall ((self! Poly)) (!
    (= (vstd!view.View.view.? $ (UINT 32) self!) self!)
    :pattern ((vstd!view.View.view.? $ (UINT 32) self!))
    :qid internal_vstd!view.impl&__24.view.?_definition
    :skolemid skolem_internal_vstd!view.impl&__24.view.?_definition
))))

;; Function-Axioms vstd::view::impl&%26::view
(assert
 (fuel_bool_default fuel%vstd!view.impl&%26.view.)
)
(assert
 (=>
  (fuel_bool fuel%vstd!view.impl&%26.view.)
  (forall ((self! Poly)) (!
    (= (vstd!view.View.view.? $ (UINT 64) self!) self!)
    :pattern ((vstd!view.View.view.? $ (UINT 64) self!))
    :qid internal_vstd!view.impl&__26.view.?_definition
    :skolemid skolem_internal_vstd!view.impl&__26.view.?_definition
))))

;; Function-Axioms vstd::view::impl&%28::view
(assert
 (fuel_bool_default fuel%vstd!view.impl&%28.view.)
)
(assert
 (=>
  (fuel_bool fuel%vstd!view.impl&%28.view.)
  (forall ((self! Poly)) (!
    (= (vstd!view.View.view.? $ (UINT 128) self!) self!)
    :pattern ((vstd!view.View.view.? $ (UINT 128) self!))
    :qid internal_vstd!view.impl&__28.view.?_definition
    :skolemid skolem_internal_vstd!view.impl&__28.view.?_definition
))))

;; Function-Axioms vstd::view::impl&%30::view
(assert
 (fuel_bool_default fuel%vstd!view.impl&%30.view.)
)
(assert
 (=>
  (fuel_bool fuel%vstd!view.impl&%30.view.)
  (forall ((self! Poly)) (!
    (= (vstd!view.View.view.? $ USIZE self!) self!)
    :pattern ((vstd!view.View.view.? $ USIZE self!))
    :qid internal_vstd!view.impl&__30.view.?_definition
    :skolemid skolem_internal_vstd!view.impl&__30.view.?_definition
))))

;; Function-Axioms vstd::view::impl&%32::view
(assert
 (fuel_bool_default fuel%vstd!view.impl&%32.view.)
)
(assert
 (=>
  (fuel_bool fuel%vstd!view.impl&%32.view.)
  (forall ((self! Poly)) (!
    (= (vstd!view.View.view.? $ (SINT 8) self!) self!)
    :pattern ((vstd!view.View.view.? $ (SINT 8) self!))
    :qid internal_vstd!view.impl&__32.view.?_definition
    :skolemid skolem_internal_vstd!view.impl&__32.view.?_definition
))))

;; Function-Axioms vstd::view::impl&%34::view
(assert
 (fuel_bool_default fuel%vstd!view.impl&%34.view.)
)
(assert
 (=>
  (fuel_bool fuel%vstd!view.impl&%34.view.)
  (forall ((self! Poly)) (!
    (= (vstd!view.View.view.? $ (SINT 16) self!) self!)
    :pattern ((vstd!view.View.view.? $ (SINT 16) self!))
    :qid internal_vstd!view.impl&__34.view.?_definition
    :skolemid skolem_internal_vstd!view.impl&__34.view.?_definition
))))

;; Function-Axioms vstd::view::impl&%36::view
(assert
 (fuel_bool_default fuel%vstd!view.impl&%36.view.)
)
(assert
 (=>
  (fuel_bool fuel%vstd!view.impl&%36.view.)
  (forall ((self! Poly)) (!
    (= (vstd!view.View.view.? $ (SINT 32) self!) self!)
    :pattern ((vstd!view.View.view.? $ (SINT 32) self!))
    :qid internal_vstd!view.impl&__36.view.?_definition
    :skolemid skolem_internal_vstd!view.impl&__36.view.?_definition
))))

;; Function-Axioms vstd::view::impl&%38::view
(assert
 (fuel_bool_default fuel%vstd!view.impl&%38.view.)
)
(assert
 (=>
  (fuel_bool fuel%vstd!view.impl&%38.view.)
  (forall ((self! Poly)) (!
    (= (vstd!view.View.view.? $ (SINT 64) self!) self!)
    :pattern ((vstd!view.View.view.? $ (SINT 64) self!))
    :qid internal_vstd!view.impl&__38.view.?_definition
    :skolemid skolem_internal_vstd!view.impl&__38.view.?_definition
))))

;; Function-Axioms vstd::view::impl&%40::view
(assert
 (fuel_bool_default fuel%vstd!view.impl&%40.view.)
)
(assert
 (=>
  (fuel_bool fuel%vstd!view.impl&%40.view.)
  (forall ((self! Poly)) (!
    (= (vstd!view.View.view.? $ (SINT 128) self!) self!)
    :pattern ((vstd!view.View.view.? $ (SINT 128) self!))
    :qid internal_vstd!view.impl&__40.view.?_definition
    :skolemid skolem_internal_vstd!view.impl&__40.view.?_definition
))))

;; Function-Axioms vstd::view::impl&%42::view
(assert
 (fuel_bool_default fuel%vstd!view.impl&%42.view.)
)
(assert
 (=>
  (fuel_bool fuel%vstd!view.impl&%42.view.)
  (forall ((self! Poly)) (!
    (= (vstd!view.View.view.? $ ISIZE self!) self!)
    :pattern ((vstd!view.View.view.? $ ISIZE self!))
    :qid internal_vstd!view.impl&__42.view.?_definition
    :skolemid skolem_internal_vstd!view.impl&__42.view.?_definition
))))

;; Function-Axioms vstd::view::impl&%44::view
(assert
 (fuel_bool_default fuel%vstd!view.impl&%44.view.)
)
(assert
 (=>
  (fuel_bool fuel%vstd!view.impl&%44.view.)
  (forall ((self! Poly)) (!
    (= (vstd!view.View.view.? $ CHAR self!) self!)
    :pattern ((vstd!view.View.view.? $ CHAR self!))
    :qid internal_vstd!view.impl&__44.view.?_definition
    :skolemid skolem_internal_vstd!view.impl&__44.view.?_definition
))))

;; Function-Axioms vstd::view::impl&%48::view
(assert
 (fuel_bool_default fuel%vstd!view.impl&%48.view.)
)
(assert
 (=>
  (fuel_bool fuel%vstd!view.impl&%48.view.)
  (forall ((A0&. Dcr) (A0& Type) (A1&. Dcr) (A1& Type) (self! Poly)) (!
    (=>
     (and
      (sized A0&.)
      (sized A1&.)
      (tr_bound%vstd!view.View. A0&. A0&)
      (tr_bound%vstd!view.View. A1&. A1&)
     )
     (= (vstd!view.View.view.? (DST A1&.) (TYPE%tuple%2. A0&. A0& A1&. A1&) self!) (Poly%tuple%2.
       (tuple%2./tuple%2 (vstd!view.View.view.? A0&. A0& (tuple%2./tuple%2/0 (%Poly%tuple%2.
           self!
         ))
        ) (vstd!view.View.view.? A1&. A1& (tuple%2./tuple%2/1 (%Poly%tuple%2. self!)))
    ))))
    :pattern ((vstd!view.View.view.? (DST A1&.) (TYPE%tuple%2. A0&. A0& A1&. A1&) self!))
    :qid internal_vstd!view.impl&__48.view.?_definition
    :skolemid skolem_internal_vstd!view.impl&__48.view.?_definition
))))

;; Function-Def scratch_sign_b::LF
;; build/scratch_sign_b.rs:4:1: 4:27 (#0)
(push)
 (get-info :all-statistics)
 (declare-const %return! strslice%.)
 (assert
  fuel_defaults
 )
 (assert
  (not true)
 )
 (get-info :all-statistics)
 (get-info :version)
 (set-option :rlimit 30000000)
 (check-sat)
 (set-option :rlimit 0)
 (get-info :all-statistics)
(pop)

;; Function-Axioms scratch_sign_b::LF
(assert
 (fuel_bool_default fuel%scratch_sign_b!LF.)
)
(assert
 (=>
  (fuel_bool fuel%scratch_sign_b!LF.)
  (= scratch_sign_b!LF.? (str%new_strlit 510333112106399929586928600338829275234895655093395798954197154842717264583919017601461114665985987508875106297980637686053904186951115503918490671671486))
))

;; Trait-Impl-Axiom
(assert
 (forall ((T&. Dcr) (T& Type)) (!
   (tr_bound%vstd!view.View. (CONST_PTR $) (PTR T&. T&))
   :pattern ((tr_bound%vstd!view.View. (CONST_PTR $) (PTR T&. T&)))
   :qid internal_vstd__raw_ptr__impl&__3_trait_impl_definition
   :skolemid skolem_internal_vstd__raw_ptr__impl&__3_trait_impl_definition
)))

;; Trait-Impl-Axiom
(assert
 (tr_bound%vstd!view.View. $ TYPE%alloc!string.String.)
)

;; Trait-Impl-Axiom
(assert
 (tr_bound%core!slice.index.SliceIndex. (DST $) (TYPE%tuple%2. $ (TYPE%core!ops.range.Bound.
    $ USIZE
   ) $ (TYPE%core!ops.range.Bound. $ USIZE)
  ) $slice STRSLICE
))

;; Trait-Impl-Axiom
(assert
 (tr_bound%vstd!slice.SliceIndexSpec. (DST $) (TYPE%tuple%2. $ (TYPE%core!ops.range.Bound.
    $ USIZE
   ) $ (TYPE%core!ops.range.Bound. $ USIZE)
  ) $slice STRSLICE
))

;; Trait-Impl-Axiom
(assert
 (forall ((I&. Dcr) (I& Type)) (!
   (=>
    (and
     (sized I&.)
     (tr_bound%core!slice.index.SliceIndex. I&. I& $slice STRSLICE)
    )
    (tr_bound%core!ops.index.Index. $slice STRSLICE I&. I&)
   )
   :pattern ((tr_bound%core!ops.index.Index. $slice STRSLICE I&. I&))
   :qid internal_core__str__traits__impl&__4_trait_impl_definition
   :skolemid skolem_internal_core__str__traits__impl&__4_trait_impl_definition
)))

;; Trait-Impl-Axiom
(assert
 (forall ((I&. Dcr) (I& Type)) (!
   (=>
    (and
     (sized I&.)
     (tr_bound%vstd!slice.SliceIndexSpec. I&. I& $slice STRSLICE)
    )
    (tr_bound%vstd!std_specs.core.IndexSpec. $slice STRSLICE I&. I&)
   )
   :pattern ((tr_bound%vstd!std_specs.core.IndexSpec. $slice STRSLICE I&. I&))
   :qid internal_vstd__string__impl&__17_trait_impl_definition
   :skolemid skolem_internal_vstd__string__impl&__17_trait_impl_definition
)))

;; Trait-Impl-Axiom
(assert
 (forall ((A&. Dcr) (A& Type)) (!
   (=>
    (tr_bound%vstd!view.View. A&. A&)
    (tr_bound%vstd!view.View. (REF A&.) A&)
   )
   :pattern ((tr_bound%vstd!view.View. (REF A&.) A&))
   :qid internal_vstd__view__impl&__0_trait_impl_definition
   :skolemid skolem_internal_vstd__view__impl&__0_trait_impl_definition
)))

;; Trait-Impl-Axiom
(assert
 (forall ((A&. Dcr) (A& Type)) (!
   (=>
    (tr_bound%vstd!view.View. A&. A&)
    (tr_bound%vstd!view.View. (BOX $ TYPE%alloc!alloc.Global. A&.) A&)
   )
   :pattern ((tr_bound%vstd!view.View. (BOX $ TYPE%alloc!alloc.Global. A&.) A&))
   :qid internal_vstd__view__impl&__2_trait_impl_definition
   :skolemid skolem_internal_vstd__view__impl&__2_trait_impl_definition
)))

;; Trait-Impl-Axiom
(assert
 (forall ((A&. Dcr) (A& Type)) (!
   (=>
    (and
     (sized A&.)
     (tr_bound%vstd!view.View. A&. A&)
    )
    (tr_bound%vstd!view.View. (RC $ TYPE%alloc!alloc.Global. A&.) A&)
   )
   :pattern ((tr_bound%vstd!view.View. (RC $ TYPE%alloc!alloc.Global. A&.) A&))
   :qid internal_vstd__view__impl&__4_trait_impl_definition
   :skolemid skolem_internal_vstd__view__impl&__4_trait_impl_definition
)))

;; Trait-Impl-Axiom
(assert
 (forall ((A&. Dcr) (A& Type)) (!
   (=>
    (and
     (sized A&.)
     (tr_bound%vstd!view.View. A&. A&)
    )
    (tr_bound%vstd!view.View. (ARC $ TYPE%alloc!alloc.Global. A&.) A&)
   )
   :pattern ((tr_bound%vstd!view.View. (ARC $ TYPE%alloc!alloc.Global. A&.) A&))
   :qid internal_vstd__view__impl&__6_trait_impl_definition
   :skolemid skolem_internal_vstd__view__impl&__6_trait_impl_definition
)))

;; Trait-Impl-Axiom
(assert
 (tr_bound%vstd!view.View. $ TYPE%tuple%0.)
)

;; Trait-Impl-Axiom
(assert
 (tr_bound%vstd!view.View. $ BOOL)
)

;; Trait-Impl-Axiom
(assert
 (tr_bound%vstd!view.View. $ (UINT 8))
)

;; Trait-Impl-Axiom
(assert
 (tr_bound%vstd!view.View. $ (UINT 16))
)

;; Trait-Impl-Axiom
(assert
 (tr_bound%vstd!view.View. $ (UINT 32))
)

;; Trait-Impl-Axiom
(assert
 (tr_bound%vstd!view.View. $ (UINT 64))
)

;; Trait-Impl-Axiom
(assert
 (tr_bound%vstd!view.View. $ (UINT 128))
)

;; Trait-Impl-Axiom
(assert
 (tr_bound%vstd!view.View. $ USIZE)
)

;; Trait-Impl-Axiom
(assert
 (tr_bound%vstd!view.View. $ (SINT 8))
)

;; Trait-Impl-Axiom
(assert
 (tr_bound%vstd!view.View. $ (SINT 16))
)

;; Trait-Impl-Axiom
(assert
 (tr_bound%vstd!view.View. $ (SINT 32))
)

;; Trait-Impl-Axiom
(assert
 (tr_bound%vstd!view.View. $ (SINT 64))
)

;; Trait-Impl-Axiom
(assert
 (tr_bound%vstd!view.View. $ (SINT 128))
)

;; Trait-Impl-Axiom
(assert
 (tr_bound%vstd!view.View. $ ISIZE)
)

;; Trait-Impl-Axiom
(assert
 (tr_bound%vstd!view.View. $ CHAR)
)

;; Trait-Impl-Axiom
(assert
 (forall ((A0&. Dcr) (A0& Type) (A1&. Dcr) (A1& Type)) (!
   (=>
    (and
     (sized A0&.)
     (sized A1&.)
     (tr_bound%vstd!view.View. A0&. A0&)
     (tr_bound%vstd!view.View. A1&. A1&)
    )
    (tr_bound%vstd!view.View. (DST A1&.) (TYPE%tuple%2. A0&. A0& A1&. A1&))
   )
   :pattern ((tr_bound%vstd!view.View. (DST A1&.) (TYPE%tuple%2. A0&. A0& A1&. A1&)))
   :qid internal_vstd__view__impl&__48_trait_impl_definition
   :skolemid skolem_internal_vstd__view__impl&__48_trait_impl_definition
)))

;; Trait-Impl-Axiom
(assert
 (tr_bound%core!convert.From. $ (UINT 16) $ (UINT 8))
)

;; Trait-Impl-Axiom
(assert
 (tr_bound%vstd!std_specs.convert.FromSpec. $ (UINT 16) $ (UINT 8))
)

;; Trait-Impl-Axiom
(assert
 (tr_bound%core!convert.From. $ (UINT 32) $ (UINT 8))
)

;; Trait-Impl-Axiom
(assert
 (tr_bound%vstd!std_specs.convert.FromSpec. $ (UINT 32) $ (UINT 8))
)

;; Trait-Impl-Axiom
(assert
 (tr_bound%core!convert.From. $ (UINT 64) $ (UINT 8))
)

;; Trait-Impl-Axiom
(assert
 (tr_bound%vstd!std_specs.convert.FromSpec. $ (UINT 64) $ (UINT 8))
)

;; Trait-Impl-Axiom
(assert
 (tr_bound%core!convert.From. $ USIZE $ (UINT 8))
)

;; Trait-Impl-Axiom
(assert
 (tr_bound%vstd!std_specs.convert.FromSpec. $ USIZE $ (UINT 8))
)

;; Trait-Impl-Axiom
(assert
 (tr_bound%core!convert.From. $ (UINT 128) $ (UINT 8))
)

;; Trait-Impl-Axiom
(assert
 (tr_bound%vstd!std_specs.convert.FromSpec. $ (UINT 128) $ (UINT 8))
)

;; Trait-Impl-Axiom
(assert
 (tr_bound%core!convert.From. $ (UINT 32) $ (UINT 16))
)

;; Trait-Impl-Axiom
(assert
 (tr_bound%vstd!std_specs.convert.FromSpec. $ (UINT 32) $ (UINT 16))
)

;; Trait-Impl-Axiom
(assert
 (tr_bound%core!convert.From. $ (UINT 64) $ (UINT 16))
)

;; Trait-Impl-Axiom
(assert
 (tr_bound%vstd!std_specs.convert.FromSpec. $ (UINT 64) $ (UINT 16))
)

;; Trait-Impl-Axiom
(assert
 (tr_bound%core!convert.From. $ USIZE $ (UINT 16))
)

;; Trait-Impl-Axiom
(assert
 (tr_bound%vstd!std_specs.convert.FromSpec. $ USIZE $ (UINT 16))
)

;; Trait-Impl-Axiom
(assert
 (tr_bound%core!convert.From. $ (UINT 128) $ (UINT 16))
)

;; Trait-Impl-Axiom
(assert
 (tr_bound%vstd!std_specs.convert.FromSpec. $ (UINT 128) $ (UINT 16))
)

;; Trait-Impl-Axiom
(assert
 (tr_bound%core!convert.From. $ (UINT 64) $ (UINT 32))
)

;; Trait-Impl-Axiom
(assert
 (tr_bound%vstd!std_specs.convert.FromSpec. $ (UINT 64) $ (UINT 32))
)

;; Trait-Impl-Axiom
(assert
 (tr_bound%core!convert.From. $ (UINT 128) $ (UINT 32))
)

;; Trait-Impl-Axiom
(assert
 (tr_bound%vstd!std_specs.convert.FromSpec. $ (UINT 128) $ (UINT 32))
)

;; Trait-Impl-Axiom
(assert
 (tr_bound%core!convert.From. $ (UINT 128) $ (UINT 64))
)

;; Trait-Impl-Axiom
(assert
 (tr_bound%vstd!std_specs.convert.FromSpec. $ (UINT 128) $ (UINT 64))
)

;; Trait-Impl-Axiom
(assert
 (tr_bound%core!convert.From. $ (SINT 16) $ (SINT 8))
)

;; Trait-Impl-Axiom
(assert
 (tr_bound%vstd!std_specs.convert.FromSpec. $ (SINT 16) $ (SINT 8))
)

;; Trait-Impl-Axiom
(assert
 (tr_bound%core!convert.From. $ (SINT 32) $ (SINT 8))
)

;; Trait-Impl-Axiom
(assert
 (tr_bound%vstd!std_specs.convert.FromSpec. $ (SINT 32) $ (SINT 8))
)

;; Trait-Impl-Axiom
(assert
 (tr_bound%core!convert.From. $ (SINT 64) $ (SINT 8))
)

;; Trait-Impl-Axiom
(assert
 (tr_bound%vstd!std_specs.convert.FromSpec. $ (SINT 64) $ (SINT 8))
)

;; Trait-Impl-Axiom
(assert
 (tr_bound%core!convert.From. $ ISIZE $ (SINT 8))
)

;; Trait-Impl-Axiom
(assert
 (tr_bound%vstd!std_specs.convert.FromSpec. $ ISIZE $ (SINT 8))
)

;; Trait-Impl-Axiom
(assert
 (tr_bound%core!convert.From. $ (SINT 128) $ (SINT 8))
)

;; Trait-Impl-Axiom
(assert
 (tr_bound%vstd!std_specs.convert.FromSpec. $ (SINT 128) $ (SINT 8))
)

;; Trait-Impl-Axiom
(assert
 (tr_bound%core!convert.From. $ (SINT 32) $ (SINT 16))
)

;; Trait-Impl-Axiom
(assert
 (tr_bound%vstd!std_specs.convert.FromSpec. $ (SINT 32) $ (SINT 16))
)

;; Trait-Impl-Axiom
(assert
 (tr_bound%core!convert.From. $ (SINT 64) $ (SINT 16))
)

;; Trait-Impl-Axiom
(assert
 (tr_bound%vstd!std_specs.convert.FromSpec. $ (SINT 64) $ (SINT 16))
)

;; Trait-Impl-Axiom
(assert
 (tr_bound%core!convert.From. $ ISIZE $ (SINT 16))
)

;; Trait-Impl-Axiom
(assert
 (tr_bound%vstd!std_specs.convert.FromSpec. $ ISIZE $ (SINT 16))
)

;; Trait-Impl-Axiom
(assert
 (tr_bound%core!convert.From. $ (SINT 128) $ (SINT 16))
)

;; Trait-Impl-Axiom
(assert
 (tr_bound%vstd!std_specs.convert.FromSpec. $ (SINT 128) $ (SINT 16))
)

;; Trait-Impl-Axiom
(assert
 (tr_bound%core!convert.From. $ (SINT 64) $ (SINT 32))
)

;; Trait-Impl-Axiom
(assert
 (tr_bound%vstd!std_specs.convert.FromSpec. $ (SINT 64) $ (SINT 32))
)

;; Trait-Impl-Axiom
(assert
 (tr_bound%core!convert.From. $ (SINT 128) $ (SINT 32))
)

;; Trait-Impl-Axiom
(assert
 (tr_bound%vstd!std_specs.convert.FromSpec. $ (SINT 128) $ (SINT 32))
)

;; Trait-Impl-Axiom
(assert
 (tr_bound%core!convert.From. $ (SINT 128) $ (SINT 64))
)

;; Trait-Impl-Axiom
(assert
 (tr_bound%vstd!std_specs.convert.FromSpec. $ (SINT 128) $ (SINT 64))
)

;; Trait-Impl-Axiom
(assert
 (tr_bound%vstd!view.View. $ TYPE%std!hash.random.DefaultHasher.)
)

;; Trait-Impl-Axiom
(assert
 (forall ((T&. Dcr) (T& Type)) (!
   (tr_bound%core!ops.range.RangeBounds. (DST $) (TYPE%tuple%2. $ (TYPE%core!ops.range.Bound.
      (REF T&.) T&
     ) $ (TYPE%core!ops.range.Bound. (REF T&.) T&)
    ) T&. T&
   )
   :pattern ((tr_bound%core!ops.range.RangeBounds. (DST $) (TYPE%tuple%2. $ (TYPE%core!ops.range.Bound.
       (REF T&.) T&
      ) $ (TYPE%core!ops.range.Bound. (REF T&.) T&)
     ) T&. T&
   ))
   :qid internal_core__ops__range__impl&__30_trait_impl_definition
   :skolemid skolem_internal_core__ops__range__impl&__30_trait_impl_definition
)))

;; Trait-Impl-Axiom
(assert
 (forall ((T&. Dcr) (T& Type)) (!
   (tr_bound%vstd!std_specs.range.RangeBoundsSpec. (DST $) (TYPE%tuple%2. $ (TYPE%core!ops.range.Bound.
      (REF T&.) T&
     ) $ (TYPE%core!ops.range.Bound. (REF T&.) T&)
    ) T&. T&
   )
   :pattern ((tr_bound%vstd!std_specs.range.RangeBoundsSpec. (DST $) (TYPE%tuple%2. $ (
       TYPE%core!ops.range.Bound. (REF T&.) T&
      ) $ (TYPE%core!ops.range.Bound. (REF T&.) T&)
     ) T&. T&
   ))
   :qid internal_vstd__std_specs__range__impl&__12_trait_impl_definition
   :skolemid skolem_internal_vstd__std_specs__range__impl&__12_trait_impl_definition
)))

;; Trait-Impl-Axiom
(assert
 (forall ((T&. Dcr) (T& Type)) (!
   (=>
    (sized T&.)
    (tr_bound%core!slice.index.SliceIndex. $ USIZE $slice (SLICE T&. T&))
   )
   :pattern ((tr_bound%core!slice.index.SliceIndex. $ USIZE $slice (SLICE T&. T&)))
   :qid internal_core__slice__index__impl&__2_trait_impl_definition
   :skolemid skolem_internal_core__slice__index__impl&__2_trait_impl_definition
)))

;; Trait-Impl-Axiom
(assert
 (forall ((T&. Dcr) (T& Type)) (!
   (=>
    (sized T&.)
    (tr_bound%vstd!slice.SliceIndexSpec. $ USIZE $slice (SLICE T&. T&))
   )
   :pattern ((tr_bound%vstd!slice.SliceIndexSpec. $ USIZE $slice (SLICE T&. T&)))
   :qid internal_vstd__std_specs__slice__impl&__0_trait_impl_definition
   :skolemid skolem_internal_vstd__std_specs__slice__impl&__0_trait_impl_definition
)))

;; Trait-Impl-Axiom
(assert
 (forall ((T&. Dcr) (T& Type) (I&. Dcr) (I& Type)) (!
   (=>
    (and
     (sized T&.)
     (sized I&.)
     (tr_bound%core!slice.index.SliceIndex. I&. I& $slice (SLICE T&. T&))
    )
    (tr_bound%core!ops.index.Index. $slice (SLICE T&. T&) I&. I&)
   )
   :pattern ((tr_bound%core!ops.index.Index. $slice (SLICE T&. T&) I&. I&))
   :qid internal_core__slice__index__impl&__0_trait_impl_definition
   :skolemid skolem_internal_core__slice__index__impl&__0_trait_impl_definition
)))

;; Trait-Impl-Axiom
(assert
 (forall ((T&. Dcr) (T& Type) (I&. Dcr) (I& Type)) (!
   (=>
    (and
     (sized T&.)
     (sized I&.)
     (tr_bound%core!slice.index.SliceIndex. I&. I& $slice (SLICE T&. T&))
    )
    (tr_bound%vstd!std_specs.core.IndexSpec. $slice (SLICE T&. T&) I&. I&)
   )
   :pattern ((tr_bound%vstd!std_specs.core.IndexSpec. $slice (SLICE T&. T&) I&. I&))
   :qid internal_vstd__std_specs__slice__impl&__7_trait_impl_definition
   :skolemid skolem_internal_vstd__std_specs__slice__impl&__7_trait_impl_definition
)))

;; Trait-Impl-Axiom
(assert
 (forall ((T&. Dcr) (T& Type) (I&. Dcr) (I& Type) (N&. Dcr) (N& Type)) (!
   (=>
    (and
     (sized T&.)
     (sized I&.)
     (uInv SZ (const_int N&))
     (tr_bound%core!ops.index.Index. $slice (SLICE T&. T&) I&. I&)
    )
    (tr_bound%core!ops.index.Index. $ (ARRAY T&. T& N&. N&) I&. I&)
   )
   :pattern ((tr_bound%core!ops.index.Index. $ (ARRAY T&. T& N&. N&) I&. I&))
   :qid internal_core__array__impl&__15_trait_impl_definition
   :skolemid skolem_internal_core__array__impl&__15_trait_impl_definition
)))

;; Trait-Impl-Axiom
(assert
 (forall ((T&. Dcr) (T& Type) (I&. Dcr) (I& Type) (N&. Dcr) (N& Type)) (!
   (=>
    (and
     (sized T&.)
     (sized I&.)
     (uInv SZ (const_int N&))
     (tr_bound%core!ops.index.Index. $slice (SLICE T&. T&) I&. I&)
    )
    (tr_bound%vstd!std_specs.core.IndexSpec. $ (ARRAY T&. T& N&. N&) I&. I&)
   )
   :pattern ((tr_bound%vstd!std_specs.core.IndexSpec. $ (ARRAY T&. T& N&. N&) I&. I&))
   :qid internal_vstd__std_specs__slice__impl&__8_trait_impl_definition
   :skolemid skolem_internal_vstd__std_specs__slice__impl&__8_trait_impl_definition
)))

;; Trait-Impl-Axiom
(assert
 (tr_bound%core!clone.Clone. $ CHAR)
)

;; Trait-Impl-Axiom
(assert
 (tr_bound%core!marker.Copy. $ CHAR)
)

;; Trait-Impl-Axiom
(assert
 (tr_bound%core!num.nonzero.ZeroablePrimitive. $ CHAR)
)

;; Trait-Impl-Axiom
(assert
 (tr_bound%vstd!std_specs.nonzero.ZeroablePrimitiveSpec. $ CHAR)
)

;; Trait-Impl-Axiom
(assert
 (tr_bound%core!clone.Clone. $ (UINT 8))
)

;; Trait-Impl-Axiom
(assert
 (tr_bound%core!marker.Copy. $ (UINT 8))
)

;; Trait-Impl-Axiom
(assert
 (tr_bound%core!num.nonzero.ZeroablePrimitive. $ (UINT 8))
)

;; Trait-Impl-Axiom
(assert
 (tr_bound%vstd!std_specs.nonzero.ZeroablePrimitiveSpec. $ (UINT 8))
)

;; Trait-Impl-Axiom
(assert
 (tr_bound%core!clone.Clone. $ (UINT 16))
)

;; Trait-Impl-Axiom
(assert
 (tr_bound%core!marker.Copy. $ (UINT 16))
)

;; Trait-Impl-Axiom
(assert
 (tr_bound%core!num.nonzero.ZeroablePrimitive. $ (UINT 16))
)

;; Trait-Impl-Axiom
(assert
 (tr_bound%vstd!std_specs.nonzero.ZeroablePrimitiveSpec. $ (UINT 16))
)

;; Trait-Impl-Axiom
(assert
 (tr_bound%core!clone.Clone. $ (UINT 32))
)

;; Trait-Impl-Axiom
(assert
 (tr_bound%core!marker.Copy. $ (UINT 32))
)

;; Trait-Impl-Axiom
(assert
 (tr_bound%core!num.nonzero.ZeroablePrimitive. $ (UINT 32))
)

;; Trait-Impl-Axiom
(assert
 (tr_bound%vstd!std_specs.nonzero.ZeroablePrimitiveSpec. $ (UINT 32))
)

;; Trait-Impl-Axiom
(assert
 (tr_bound%core!clone.Clone. $ (UINT 64))
)

;; Trait-Impl-Axiom
(assert
 (tr_bound%core!marker.Copy. $ (UINT 64))
)

;; Trait-Impl-Axiom
(assert
 (tr_bound%core!num.nonzero.ZeroablePrimitive. $ (UINT 64))
)

;; Trait-Impl-Axiom
(assert
 (tr_bound%vstd!std_specs.nonzero.ZeroablePrimitiveSpec. $ (UINT 64))
)

;; Trait-Impl-Axiom
(assert
 (tr_bound%core!clone.Clone. $ USIZE)
)

;; Trait-Impl-Axiom
(assert
 (tr_bound%core!marker.Copy. $ USIZE)
)

;; Trait-Impl-Axiom
(assert
 (tr_bound%core!num.nonzero.ZeroablePrimitive. $ USIZE)
)

;; Trait-Impl-Axiom
(assert
 (tr_bound%vstd!std_specs.nonzero.ZeroablePrimitiveSpec. $ USIZE)
)

;; Trait-Impl-Axiom
(assert
 (tr_bound%core!clone.Clone. $ (SINT 8))
)

;; Trait-Impl-Axiom
(assert
 (tr_bound%core!marker.Copy. $ (SINT 8))
)

;; Trait-Impl-Axiom
(assert
 (tr_bound%core!num.nonzero.ZeroablePrimitive. $ (SINT 8))
)

;; Trait-Impl-Axiom
(assert
 (tr_bound%vstd!std_specs.nonzero.ZeroablePrimitiveSpec. $ (SINT 8))
)

;; Trait-Impl-Axiom
(assert
 (tr_bound%core!clone.Clone. $ (SINT 16))
)

;; Trait-Impl-Axiom
(assert
 (tr_bound%core!marker.Copy. $ (SINT 16))
)

;; Trait-Impl-Axiom
(assert
 (tr_bound%core!num.nonzero.ZeroablePrimitive. $ (SINT 16))
)

;; Trait-Impl-Axiom
(assert
 (tr_bound%vstd!std_specs.nonzero.ZeroablePrimitiveSpec. $ (SINT 16))
)

;; Trait-Impl-Axiom
(assert
 (tr_bound%core!clone.Clone. $ (SINT 32))
)

;; Trait-Impl-Axiom
(assert
 (tr_bound%core!marker.Copy. $ (SINT 32))
)

;; Trait-Impl-Axiom
(assert
 (tr_bound%core!num.nonzero.ZeroablePrimitive. $ (SINT 32))
)

;; Trait-Impl-Axiom
(assert
 (tr_bound%vstd!std_specs.nonzero.ZeroablePrimitiveSpec. $ (SINT 32))
)

;; Trait-Impl-Axiom
(assert
 (tr_bound%core!clone.Clone. $ (SINT 64))
)

;; Trait-Impl-Axiom
(assert
 (tr_bound%core!marker.Copy. $ (SINT 64))
)

;; Trait-Impl-Axiom
(assert
 (tr_bound%core!num.nonzero.ZeroablePrimitive. $ (SINT 64))
)

;; Trait-Impl-Axiom
(assert
 (tr_bound%vstd!std_specs.nonzero.ZeroablePrimitiveSpec. $ (SINT 64))
)

;; Trait-Impl-Axiom
(assert
 (tr_bound%core!clone.Clone. $ ISIZE)
)

;; Trait-Impl-Axiom
(assert
 (tr_bound%core!marker.Copy. $ ISIZE)
)

;; Trait-Impl-Axiom
(assert
 (tr_bound%core!num.nonzero.ZeroablePrimitive. $ ISIZE)
)

;; Trait-Impl-Axiom
(assert
 (tr_bound%vstd!std_specs.nonzero.ZeroablePrimitiveSpec. $ ISIZE)
)

;; Trait-Impl-Axiom
(assert
 (forall ((T&. Dcr) (T& Type)) (!
   (=>
    (and
     (sized T&.)
     (tr_bound%core!num.nonzero.ZeroablePrimitive. T&. T&)
    )
    (tr_bound%core!convert.From. T&. T& $ (TYPE%core!num.nonzero.NonZero. T&. T&))
   )
   :pattern ((tr_bound%core!convert.From. T&. T& $ (TYPE%core!num.nonzero.NonZero. T&.
      T&
   )))
   :qid internal_core__num__nonzero__impl&__10_trait_impl_definition
   :skolemid skolem_internal_core__num__nonzero__impl&__10_trait_impl_definition
)))

;; Trait-Impl-Axiom
(assert
 (forall ((T&. Dcr) (T& Type)) (!
   (=>
    (and
     (sized T&.)
     (tr_bound%core!num.nonzero.ZeroablePrimitive. T&. T&)
    )
    (tr_bound%vstd!std_specs.convert.FromSpec. T&. T& $ (TYPE%core!num.nonzero.NonZero.
      T&. T&
   )))
   :pattern ((tr_bound%vstd!std_specs.convert.FromSpec. T&. T& $ (TYPE%core!num.nonzero.NonZero.
      T&. T&
   )))
   :qid internal_vstd__std_specs__nonzero__impl&__16_trait_impl_definition
   :skolemid skolem_internal_vstd__std_specs__nonzero__impl&__16_trait_impl_definition
)))

;; Trait-Impl-Axiom
(assert
 (tr_bound%core!clone.Clone. $ (UINT 128))
)

;; Trait-Impl-Axiom
(assert
 (tr_bound%core!marker.Copy. $ (UINT 128))
)

;; Trait-Impl-Axiom
(assert
 (tr_bound%core!num.nonzero.ZeroablePrimitive. $ (UINT 128))
)

;; Trait-Impl-Axiom
(assert
 (tr_bound%core!clone.Clone. $ (SINT 128))
)

;; Trait-Impl-Axiom
(assert
 (tr_bound%core!marker.Copy. $ (SINT 128))
)

;; Trait-Impl-Axiom
(assert
 (tr_bound%core!num.nonzero.ZeroablePrimitive. $ (SINT 128))
)

;; Trait-Impl-Axiom
(assert
 (forall ((T&. Dcr) (T& Type)) (!
   (tr_bound%core!borrow.Borrow. T&. T& T&. T&)
   :pattern ((tr_bound%core!borrow.Borrow. T&. T& T&. T&))
   :qid internal_core__borrow__impl&__0_trait_impl_definition
   :skolemid skolem_internal_core__borrow__impl&__0_trait_impl_definition
)))

;; Trait-Impl-Axiom
(assert
 (forall ((T&. Dcr) (T& Type)) (!
   (tr_bound%core!borrow.Borrow. (REF T&.) T& T&. T&)
   :pattern ((tr_bound%core!borrow.Borrow. (REF T&.) T& T&. T&))
   :qid internal_core__borrow__impl&__2_trait_impl_definition
   :skolemid skolem_internal_core__borrow__impl&__2_trait_impl_definition
)))

;; Trait-Impl-Axiom
(assert
 (forall ((T&. Dcr) (T& Type)) (!
   (tr_bound%core!borrow.Borrow. $ (MUTREF T&. T&) T&. T&)
   :pattern ((tr_bound%core!borrow.Borrow. $ (MUTREF T&. T&) T&. T&))
   :qid internal_core__borrow__impl&__3_trait_impl_definition
   :skolemid skolem_internal_core__borrow__impl&__3_trait_impl_definition
)))

;; Trait-Impl-Axiom
(assert
 (forall ((T&. Dcr) (T& Type) (N&. Dcr) (N& Type)) (!
   (=>
    (and
     (sized T&.)
     (uInv SZ (const_int N&))
    )
    (tr_bound%core!borrow.Borrow. $ (ARRAY T&. T& N&. N&) $slice (SLICE T&. T&))
   )
   :pattern ((tr_bound%core!borrow.Borrow. $ (ARRAY T&. T& N&. N&) $slice (SLICE T&. T&)))
   :qid internal_core__array__impl&__5_trait_impl_definition
   :skolemid skolem_internal_core__array__impl&__5_trait_impl_definition
)))

;; Trait-Impl-Axiom
(assert
 (forall ((T&. Dcr) (T& Type) (A&. Dcr) (A& Type)) (!
   (=>
    (and
     (sized A&.)
     (tr_bound%core!alloc.Allocator. A&. A&)
    )
    (tr_bound%core!borrow.Borrow. (BOX A&. A& T&.) T& T&. T&)
   )
   :pattern ((tr_bound%core!borrow.Borrow. (BOX A&. A& T&.) T& T&. T&))
   :qid internal_alloc__boxed__impl&__40_trait_impl_definition
   :skolemid skolem_internal_alloc__boxed__impl&__40_trait_impl_definition
)))

;; Trait-Impl-Axiom
(assert
 (forall ((T&. Dcr) (T& Type) (A&. Dcr) (A& Type)) (!
   (=>
    (and
     (sized A&.)
     (tr_bound%core!alloc.Allocator. A&. A&)
    )
    (tr_bound%core!borrow.Borrow. (RC A&. A& T&.) T& T&. T&)
   )
   :pattern ((tr_bound%core!borrow.Borrow. (RC A&. A& T&.) T& T&. T&))
   :qid internal_alloc__rc__impl&__84_trait_impl_definition
   :skolemid skolem_internal_alloc__rc__impl&__84_trait_impl_definition
)))

;; Trait-Impl-Axiom
(assert
 (tr_bound%core!borrow.Borrow. $ TYPE%alloc!string.String. $slice STRSLICE)
)

;; Trait-Impl-Axiom
(assert
 (forall ((T&. Dcr) (T& Type) (A&. Dcr) (A& Type)) (!
   (=>
    (and
     (sized A&.)
     (tr_bound%core!alloc.Allocator. A&. A&)
    )
    (tr_bound%core!borrow.Borrow. (ARC A&. A& T&.) T& T&. T&)
   )
   :pattern ((tr_bound%core!borrow.Borrow. (ARC A&. A& T&.) T& T&. T&))
   :qid internal_alloc__sync__impl&__83_trait_impl_definition
   :skolemid skolem_internal_alloc__sync__impl&__83_trait_impl_definition
)))

;; Trait-Impl-Axiom
(assert
 (forall ((K&. Dcr) (K& Type) (V&. Dcr) (V& Type) (S&. Dcr) (S& Type) (A&. Dcr) (A& Type))
  (!
   (=>
    (and
     (sized K&.)
     (sized V&.)
     (sized S&.)
     (sized A&.)
     (tr_bound%core!clone.Clone. K&. K&)
     (tr_bound%core!clone.Clone. V&. V&)
     (tr_bound%core!clone.Clone. S&. S&)
     (tr_bound%core!alloc.Allocator. A&. A&)
     (tr_bound%core!clone.Clone. A&. A&)
    )
    (tr_bound%core!clone.Clone. $ (TYPE%std!collections.hash.map.HashMap. K&. K& V&. V&
      S&. S& A&. A&
   )))
   :pattern ((tr_bound%core!clone.Clone. $ (TYPE%std!collections.hash.map.HashMap. K&.
      K& V&. V& S&. S& A&. A&
   )))
   :qid internal_std__collections__hash__map__impl&__5_trait_impl_definition
   :skolemid skolem_internal_std__collections__hash__map__impl&__5_trait_impl_definition
)))

;; Trait-Impl-Axiom
(assert
 (forall ((T&. Dcr) (T& Type) (A&. Dcr) (A& Type)) (!
   (=>
    (and
     (sized T&.)
     (sized A&.)
     (tr_bound%core!clone.Clone. T&. T&)
     (tr_bound%core!alloc.Allocator. A&. A&)
     (tr_bound%core!clone.Clone. A&. A&)
    )
    (tr_bound%core!clone.Clone. (BOX A&. A& T&.) T&)
   )
   :pattern ((tr_bound%core!clone.Clone. (BOX A&. A& T&.) T&))
   :qid internal_alloc__boxed__impl&__15_trait_impl_definition
   :skolemid skolem_internal_alloc__boxed__impl&__15_trait_impl_definition
)))

;; Trait-Impl-Axiom
(assert
 (forall ((T&. Dcr) (T& Type) (A&. Dcr) (A& Type)) (!
   (=>
    (and
     (sized T&.)
     (sized A&.)
     (tr_bound%core!clone.Clone. T&. T&)
     (tr_bound%core!alloc.Allocator. A&. A&)
     (tr_bound%core!clone.Clone. A&. A&)
    )
    (tr_bound%core!clone.Clone. (BOX A&. A& $slice) (SLICE T&. T&))
   )
   :pattern ((tr_bound%core!clone.Clone. (BOX A&. A& $slice) (SLICE T&. T&)))
   :qid internal_alloc__boxed__impl&__16_trait_impl_definition
   :skolemid skolem_internal_alloc__boxed__impl&__16_trait_impl_definition
)))

;; Trait-Impl-Axiom
(assert
 (tr_bound%core!clone.Clone. (BOX $ TYPE%alloc!alloc.Global. $slice) STRSLICE)
)

;; Trait-Impl-Axiom
(assert
 (tr_bound%core!clone.Clone. $ TYPE%std!hash.random.RandomState.)
)

;; Trait-Impl-Axiom
(assert
 (tr_bound%core!clone.Clone. $ TYPE%std!hash.random.DefaultHasher.)
)

;; Trait-Impl-Axiom
(assert
 (forall ((T&. Dcr) (T& Type)) (!
   (=>
    (and
     (sized T&.)
     (tr_bound%core!num.nonzero.ZeroablePrimitive. T&. T&)
    )
    (tr_bound%core!clone.Clone. $ (TYPE%core!num.nonzero.NonZero. T&. T&))
   )
   :pattern ((tr_bound%core!clone.Clone. $ (TYPE%core!num.nonzero.NonZero. T&. T&)))
   :qid internal_core__num__nonzero__impl&__0_trait_impl_definition
   :skolemid skolem_internal_core__num__nonzero__impl&__0_trait_impl_definition
)))

;; Trait-Impl-Axiom
(assert
 (tr_bound%core!clone.Clone. $ BOOL)
)

;; Trait-Impl-Axiom
(assert
 (forall ((T&. Dcr) (T& Type)) (!
   (tr_bound%core!clone.Clone. (CONST_PTR $) (PTR T&. T&))
   :pattern ((tr_bound%core!clone.Clone. (CONST_PTR $) (PTR T&. T&)))
   :qid internal_core__clone__impls__impl&__2_trait_impl_definition
   :skolemid skolem_internal_core__clone__impls__impl&__2_trait_impl_definition
)))

;; Trait-Impl-Axiom
(assert
 (forall ((T&. Dcr) (T& Type)) (!
   (tr_bound%core!clone.Clone. $ (PTR T&. T&))
   :pattern ((tr_bound%core!clone.Clone. $ (PTR T&. T&)))
   :qid internal_core__clone__impls__impl&__4_trait_impl_definition
   :skolemid skolem_internal_core__clone__impls__impl&__4_trait_impl_definition
)))

;; Trait-Impl-Axiom
(assert
 (forall ((T&. Dcr) (T& Type)) (!
   (tr_bound%core!clone.Clone. (REF T&.) T&)
   :pattern ((tr_bound%core!clone.Clone. (REF T&.) T&))
   :qid internal_core__clone__impls__impl&__6_trait_impl_definition
   :skolemid skolem_internal_core__clone__impls__impl&__6_trait_impl_definition
)))

;; Trait-Impl-Axiom
(assert
 (forall ((T&. Dcr) (T& Type)) (!
   (=>
    (and
     (sized T&.)
     (tr_bound%core!clone.Clone. T&. T&)
    )
    (tr_bound%core!clone.Clone. $ (TYPE%core!ops.range.Bound. T&. T&))
   )
   :pattern ((tr_bound%core!clone.Clone. $ (TYPE%core!ops.range.Bound. T&. T&)))
   :qid internal_core__ops__range__impl&__78_trait_impl_definition
   :skolemid skolem_internal_core__ops__range__impl&__78_trait_impl_definition
)))

;; Trait-Impl-Axiom
(assert
 (forall ((T&. Dcr) (T& Type) (N&. Dcr) (N& Type)) (!
   (=>
    (and
     (sized T&.)
     (uInv SZ (const_int N&))
     (tr_bound%core!clone.Clone. T&. T&)
    )
    (tr_bound%core!clone.Clone. $ (ARRAY T&. T& N&. N&))
   )
   :pattern ((tr_bound%core!clone.Clone. $ (ARRAY T&. T& N&. N&)))
   :qid internal_core__array__impl&__20_trait_impl_definition
   :skolemid skolem_internal_core__array__impl&__20_trait_impl_definition
)))

;; Trait-Impl-Axiom
(assert
 (tr_bound%core!clone.Clone. $ TYPE%alloc!alloc.Global.)
)

;; Trait-Impl-Axiom
(assert
 (forall ((T&. Dcr) (T& Type) (A&. Dcr) (A& Type)) (!
   (=>
    (and
     (sized A&.)
     (tr_bound%core!alloc.Allocator. A&. A&)
     (tr_bound%core!clone.Clone. A&. A&)
    )
    (tr_bound%core!clone.Clone. (RC A&. A& T&.) T&)
   )
   :pattern ((tr_bound%core!clone.Clone. (RC A&. A& T&.) T&))
   :qid internal_alloc__rc__impl&__35_trait_impl_definition
   :skolemid skolem_internal_alloc__rc__impl&__35_trait_impl_definition
)))

;; Trait-Impl-Axiom
(assert
 (tr_bound%core!clone.Clone. $ TYPE%alloc!string.String.)
)

;; Trait-Impl-Axiom
(assert
 (forall ((T&. Dcr) (T& Type) (A&. Dcr) (A& Type)) (!
   (=>
    (and
     (sized A&.)
     (tr_bound%core!alloc.Allocator. A&. A&)
     (tr_bound%core!clone.Clone. A&. A&)
    )
    (tr_bound%core!clone.Clone. (ARC A&. A& T&.) T&)
   )
   :pattern ((tr_bound%core!clone.Clone. (ARC A&. A& T&.) T&))
   :qid internal_alloc__sync__impl&__32_trait_impl_definition
   :skolemid skolem_internal_alloc__sync__impl&__32_trait_impl_definition
)))

;; Trait-Impl-Axiom
(assert
 (forall ((A&. Dcr) (A& Type)) (!
   (=>
    (sized A&.)
    (tr_bound%core!clone.Clone. (GHOST A&.) A&)
   )
   :pattern ((tr_bound%core!clone.Clone. (GHOST A&.) A&))
   :qid internal_verus_builtin__impl&__7_trait_impl_definition
   :skolemid skolem_internal_verus_builtin__impl&__7_trait_impl_definition
)))

;; Trait-Impl-Axiom
(assert
 (forall ((A&. Dcr) (A& Type)) (!
   (=>
    (and
     (sized A&.)
     (tr_bound%core!marker.Copy. A&. A&)
    )
    (tr_bound%core!clone.Clone. (TRACKED A&.) A&)
   )
   :pattern ((tr_bound%core!clone.Clone. (TRACKED A&.) A&))
   :qid internal_verus_builtin__impl&__9_trait_impl_definition
   :skolemid skolem_internal_verus_builtin__impl&__9_trait_impl_definition
)))

;; Trait-Impl-Axiom
(assert
 (tr_bound%core!clone.Clone. $ INT)
)

;; Trait-Impl-Axiom
(assert
 (tr_bound%core!clone.Clone. $ NAT)
)

;; Trait-Impl-Axiom
(assert
 (forall ((K&. Dcr) (K& Type) (V&. Dcr) (V& Type) (S&. Dcr) (S& Type) (A&. Dcr) (A& Type))
  (!
   (=>
    (and
     (sized K&.)
     (sized V&.)
     (sized S&.)
     (sized A&.)
     (tr_bound%core!cmp.Eq. K&. K&)
     (tr_bound%core!hash.Hash. K&. K&)
     (tr_bound%core!cmp.PartialEq. V&. V& V&. V&)
     (tr_bound%core!hash.BuildHasher. S&. S&)
     (tr_bound%core!alloc.Allocator. A&. A&)
    )
    (tr_bound%core!cmp.PartialEq. $ (TYPE%std!collections.hash.map.HashMap. K&. K& V&.
      V& S&. S& A&. A&
     ) $ (TYPE%std!collections.hash.map.HashMap. K&. K& V&. V& S&. S& A&. A&)
   ))
   :pattern ((tr_bound%core!cmp.PartialEq. $ (TYPE%std!collections.hash.map.HashMap. K&.
      K& V&. V& S&. S& A&. A&
     ) $ (TYPE%std!collections.hash.map.HashMap. K&. K& V&. V& S&. S& A&. A&)
   ))
   :qid internal_std__collections__hash__map__impl&__6_trait_impl_definition
   :skolemid skolem_internal_std__collections__hash__map__impl&__6_trait_impl_definition
)))

;; Trait-Impl-Axiom
(assert
 (tr_bound%core!cmp.PartialEq. $slice STRSLICE $slice STRSLICE)
)

;; Trait-Impl-Axiom
(assert
 (tr_bound%core!cmp.PartialEq. $slice STRSLICE $ TYPE%alloc!string.String.)
)

;; Trait-Impl-Axiom
(assert
 (forall ((A&. Dcr) (A& Type) (B&. Dcr) (B& Type)) (!
   (=>
    (tr_bound%core!cmp.PartialEq. A&. A& B&. B&)
    (tr_bound%core!cmp.PartialEq. (REF A&.) A& (REF B&.) B&)
   )
   :pattern ((tr_bound%core!cmp.PartialEq. (REF A&.) A& (REF B&.) B&))
   :qid internal_core__cmp__impls__impl&__9_trait_impl_definition
   :skolemid skolem_internal_core__cmp__impls__impl&__9_trait_impl_definition
)))

;; Trait-Impl-Axiom
(assert
 (forall ((A&. Dcr) (A& Type) (B&. Dcr) (B& Type)) (!
   (=>
    (tr_bound%core!cmp.PartialEq. A&. A& B&. B&)
    (tr_bound%core!cmp.PartialEq. (REF A&.) A& $ (MUTREF B&. B&))
   )
   :pattern ((tr_bound%core!cmp.PartialEq. (REF A&.) A& $ (MUTREF B&. B&)))
   :qid internal_core__cmp__impls__impl&__17_trait_impl_definition
   :skolemid skolem_internal_core__cmp__impls__impl&__17_trait_impl_definition
)))

;; Trait-Impl-Axiom
(assert
 (forall ((T&. Dcr) (T& Type) (U&. Dcr) (U& Type) (N&. Dcr) (N& Type)) (!
   (=>
    (and
     (sized T&.)
     (sized U&.)
     (uInv SZ (const_int N&))
     (tr_bound%core!cmp.PartialEq. T&. T& U&. U&)
    )
    (tr_bound%core!cmp.PartialEq. (REF $slice) (SLICE T&. T&) $ (ARRAY U&. U& N&. N&))
   )
   :pattern ((tr_bound%core!cmp.PartialEq. (REF $slice) (SLICE T&. T&) $ (ARRAY U&. U&
      N&. N&
   )))
   :qid internal_core__array__equality__impl&__4_trait_impl_definition
   :skolemid skolem_internal_core__array__equality__impl&__4_trait_impl_definition
)))

;; Trait-Impl-Axiom
(assert
 (tr_bound%core!cmp.PartialEq. (REF $slice) STRSLICE $ TYPE%alloc!string.String.)
)

;; Trait-Impl-Axiom
(assert
 (tr_bound%core!cmp.PartialEq. $ TYPE%alloc!string.String. $ TYPE%alloc!string.String.)
)

;; Trait-Impl-Axiom
(assert
 (tr_bound%core!cmp.PartialEq. $ TYPE%alloc!string.String. $slice STRSLICE)
)

;; Trait-Impl-Axiom
(assert
 (tr_bound%core!cmp.PartialEq. $ TYPE%alloc!string.String. (REF $slice) STRSLICE)
)

;; Trait-Impl-Axiom
(assert
 (forall ((T&. Dcr) (T& Type)) (!
   (=>
    (and
     (sized T&.)
     (tr_bound%core!num.nonzero.ZeroablePrimitive. T&. T&)
     (tr_bound%core!cmp.PartialEq. T&. T& T&. T&)
    )
    (tr_bound%core!cmp.PartialEq. $ (TYPE%core!num.nonzero.NonZero. T&. T&) $ (TYPE%core!num.nonzero.NonZero.
      T&. T&
   )))
   :pattern ((tr_bound%core!cmp.PartialEq. $ (TYPE%core!num.nonzero.NonZero. T&. T&) $
     (TYPE%core!num.nonzero.NonZero. T&. T&)
   ))
   :qid internal_core__num__nonzero__impl&__4_trait_impl_definition
   :skolemid skolem_internal_core__num__nonzero__impl&__4_trait_impl_definition
)))

;; Trait-Impl-Axiom
(assert
 (forall ((T&. Dcr) (T& Type)) (!
   (tr_bound%core!cmp.PartialEq. (CONST_PTR $) (PTR T&. T&) (CONST_PTR $) (PTR T&. T&))
   :pattern ((tr_bound%core!cmp.PartialEq. (CONST_PTR $) (PTR T&. T&) (CONST_PTR $) (PTR
      T&. T&
   )))
   :qid internal_core__ptr__const_ptr__impl&__7_trait_impl_definition
   :skolemid skolem_internal_core__ptr__const_ptr__impl&__7_trait_impl_definition
)))

;; Trait-Impl-Axiom
(assert
 (forall ((T&. Dcr) (T& Type)) (!
   (tr_bound%core!cmp.PartialEq. $ (PTR T&. T&) $ (PTR T&. T&))
   :pattern ((tr_bound%core!cmp.PartialEq. $ (PTR T&. T&) $ (PTR T&. T&)))
   :qid internal_core__ptr__mut_ptr__impl&__7_trait_impl_definition
   :skolemid skolem_internal_core__ptr__mut_ptr__impl&__7_trait_impl_definition
)))

;; Trait-Impl-Axiom
(assert
 (tr_bound%core!cmp.PartialEq. $ TYPE%tuple%0. $ TYPE%tuple%0.)
)

;; Trait-Impl-Axiom
(assert
 (tr_bound%core!cmp.PartialEq. $ BOOL $ BOOL)
)

;; Trait-Impl-Axiom
(assert
 (tr_bound%core!cmp.PartialEq. $ CHAR $ CHAR)
)

;; Trait-Impl-Axiom
(assert
 (tr_bound%core!cmp.PartialEq. $ USIZE $ USIZE)
)

;; Trait-Impl-Axiom
(assert
 (tr_bound%core!cmp.PartialEq. $ (UINT 8) $ (UINT 8))
)

;; Trait-Impl-Axiom
(assert
 (tr_bound%core!cmp.PartialEq. $ (UINT 16) $ (UINT 16))
)

;; Trait-Impl-Axiom
(assert
 (tr_bound%core!cmp.PartialEq. $ (UINT 32) $ (UINT 32))
)

;; Trait-Impl-Axiom
(assert
 (tr_bound%core!cmp.PartialEq. $ (UINT 64) $ (UINT 64))
)

;; Trait-Impl-Axiom
(assert
 (tr_bound%core!cmp.PartialEq. $ (UINT 128) $ (UINT 128))
)

;; Trait-Impl-Axiom
(assert
 (tr_bound%core!cmp.PartialEq. $ ISIZE $ ISIZE)
)

;; Trait-Impl-Axiom
(assert
 (tr_bound%core!cmp.PartialEq. $ (SINT 8) $ (SINT 8))
)

;; Trait-Impl-Axiom
(assert
 (tr_bound%core!cmp.PartialEq. $ (SINT 16) $ (SINT 16))
)

;; Trait-Impl-Axiom
(assert
 (tr_bound%core!cmp.PartialEq. $ (SINT 32) $ (SINT 32))
)

;; Trait-Impl-Axiom
(assert
 (tr_bound%core!cmp.PartialEq. $ (SINT 64) $ (SINT 64))
)

;; Trait-Impl-Axiom
(assert
 (tr_bound%core!cmp.PartialEq. $ (SINT 128) $ (SINT 128))
)

;; Trait-Impl-Axiom
(assert
 (forall ((A&. Dcr) (A& Type) (B&. Dcr) (B& Type)) (!
   (=>
    (tr_bound%core!cmp.PartialEq. A&. A& B&. B&)
    (tr_bound%core!cmp.PartialEq. $ (MUTREF A&. A&) $ (MUTREF B&. B&))
   )
   :pattern ((tr_bound%core!cmp.PartialEq. $ (MUTREF A&. A&) $ (MUTREF B&. B&)))
   :qid internal_core__cmp__impls__impl&__13_trait_impl_definition
   :skolemid skolem_internal_core__cmp__impls__impl&__13_trait_impl_definition
)))

;; Trait-Impl-Axiom
(assert
 (forall ((A&. Dcr) (A& Type) (B&. Dcr) (B& Type)) (!
   (=>
    (tr_bound%core!cmp.PartialEq. A&. A& B&. B&)
    (tr_bound%core!cmp.PartialEq. $ (MUTREF A&. A&) (REF B&.) B&)
   )
   :pattern ((tr_bound%core!cmp.PartialEq. $ (MUTREF A&. A&) (REF B&.) B&))
   :qid internal_core__cmp__impls__impl&__18_trait_impl_definition
   :skolemid skolem_internal_core__cmp__impls__impl&__18_trait_impl_definition
)))

;; Trait-Impl-Axiom
(assert
 (forall ((T&. Dcr) (T& Type) (U&. Dcr) (U& Type) (N&. Dcr) (N& Type)) (!
   (=>
    (and
     (sized T&.)
     (sized U&.)
     (uInv SZ (const_int N&))
     (tr_bound%core!cmp.PartialEq. T&. T& U&. U&)
    )
    (tr_bound%core!cmp.PartialEq. $ (MUTREF $slice (SLICE T&. T&)) $ (ARRAY U&. U& N&.
      N&
   )))
   :pattern ((tr_bound%core!cmp.PartialEq. $ (MUTREF $slice (SLICE T&. T&)) $ (ARRAY U&.
      U& N&. N&
   )))
   :qid internal_core__array__equality__impl&__6_trait_impl_definition
   :skolemid skolem_internal_core__array__equality__impl&__6_trait_impl_definition
)))

;; Trait-Impl-Axiom
(assert
 (forall ((T&. Dcr) (T& Type)) (!
   (=>
    (and
     (sized T&.)
     (tr_bound%core!cmp.PartialEq. T&. T& T&. T&)
    )
    (tr_bound%core!cmp.PartialEq. $ (TYPE%core!ops.range.Bound. T&. T&) $ (TYPE%core!ops.range.Bound.
      T&. T&
   )))
   :pattern ((tr_bound%core!cmp.PartialEq. $ (TYPE%core!ops.range.Bound. T&. T&) $ (TYPE%core!ops.range.Bound.
      T&. T&
   )))
   :qid internal_core__ops__range__impl&__81_trait_impl_definition
   :skolemid skolem_internal_core__ops__range__impl&__81_trait_impl_definition
)))

;; Trait-Impl-Axiom
(assert
 (forall ((T&. Dcr) (T& Type) (U&. Dcr) (U& Type) (N&. Dcr) (N& Type)) (!
   (=>
    (and
     (sized T&.)
     (sized U&.)
     (uInv SZ (const_int N&))
     (tr_bound%core!cmp.PartialEq. T&. T& U&. U&)
    )
    (tr_bound%core!cmp.PartialEq. $ (ARRAY T&. T& N&. N&) $ (ARRAY U&. U& N&. N&))
   )
   :pattern ((tr_bound%core!cmp.PartialEq. $ (ARRAY T&. T& N&. N&) $ (ARRAY U&. U& N&.
      N&
   )))
   :qid internal_core__array__equality__impl&__0_trait_impl_definition
   :skolemid skolem_internal_core__array__equality__impl&__0_trait_impl_definition
)))

;; Trait-Impl-Axiom
(assert
 (forall ((T&. Dcr) (T& Type) (U&. Dcr) (U& Type) (N&. Dcr) (N& Type)) (!
   (=>
    (and
     (sized T&.)
     (sized U&.)
     (uInv SZ (const_int N&))
     (tr_bound%core!cmp.PartialEq. T&. T& U&. U&)
    )
    (tr_bound%core!cmp.PartialEq. $ (ARRAY T&. T& N&. N&) $slice (SLICE U&. U&))
   )
   :pattern ((tr_bound%core!cmp.PartialEq. $ (ARRAY T&. T& N&. N&) $slice (SLICE U&. U&)))
   :qid internal_core__array__equality__impl&__1_trait_impl_definition
   :skolemid skolem_internal_core__array__equality__impl&__1_trait_impl_definition
)))

;; Trait-Impl-Axiom
(assert
 (forall ((T&. Dcr) (T& Type) (U&. Dcr) (U& Type) (N&. Dcr) (N& Type)) (!
   (=>
    (and
     (sized T&.)
     (sized U&.)
     (uInv SZ (const_int N&))
     (tr_bound%core!cmp.PartialEq. T&. T& U&. U&)
    )
    (tr_bound%core!cmp.PartialEq. $ (ARRAY T&. T& N&. N&) (REF $slice) (SLICE U&. U&))
   )
   :pattern ((tr_bound%core!cmp.PartialEq. $ (ARRAY T&. T& N&. N&) (REF $slice) (SLICE
      U&. U&
   )))
   :qid internal_core__array__equality__impl&__3_trait_impl_definition
   :skolemid skolem_internal_core__array__equality__impl&__3_trait_impl_definition
)))

;; Trait-Impl-Axiom
(assert
 (forall ((T&. Dcr) (T& Type) (U&. Dcr) (U& Type) (N&. Dcr) (N& Type)) (!
   (=>
    (and
     (sized T&.)
     (sized U&.)
     (uInv SZ (const_int N&))
     (tr_bound%core!cmp.PartialEq. T&. T& U&. U&)
    )
    (tr_bound%core!cmp.PartialEq. $ (ARRAY T&. T& N&. N&) $ (MUTREF $slice (SLICE U&. U&)))
   )
   :pattern ((tr_bound%core!cmp.PartialEq. $ (ARRAY T&. T& N&. N&) $ (MUTREF $slice (SLICE
       U&. U&
   ))))
   :qid internal_core__array__equality__impl&__5_trait_impl_definition
   :skolemid skolem_internal_core__array__equality__impl&__5_trait_impl_definition
)))

;; Trait-Impl-Axiom
(assert
 (forall ((T&. Dcr) (T& Type) (U&. Dcr) (U& Type) (N&. Dcr) (N& Type)) (!
   (=>
    (and
     (sized T&.)
     (sized U&.)
     (uInv SZ (const_int N&))
     (tr_bound%core!cmp.PartialEq. T&. T& U&. U&)
    )
    (tr_bound%core!cmp.PartialEq. $slice (SLICE T&. T&) $ (ARRAY U&. U& N&. N&))
   )
   :pattern ((tr_bound%core!cmp.PartialEq. $slice (SLICE T&. T&) $ (ARRAY U&. U& N&. N&)))
   :qid internal_core__array__equality__impl&__2_trait_impl_definition
   :skolemid skolem_internal_core__array__equality__impl&__2_trait_impl_definition
)))

;; Trait-Impl-Axiom
(assert
 (forall ((T&. Dcr) (T& Type) (U&. Dcr) (U& Type)) (!
   (=>
    (and
     (sized T&.)
     (sized U&.)
     (tr_bound%core!cmp.PartialEq. T&. T& U&. U&)
    )
    (tr_bound%core!cmp.PartialEq. $slice (SLICE T&. T&) $slice (SLICE U&. U&))
   )
   :pattern ((tr_bound%core!cmp.PartialEq. $slice (SLICE T&. T&) $slice (SLICE U&. U&)))
   :qid internal_core__slice__cmp__impl&__0_trait_impl_definition
   :skolemid skolem_internal_core__slice__cmp__impl&__0_trait_impl_definition
)))

;; Trait-Impl-Axiom
(assert
 (forall ((U&. Dcr) (U& Type) (T&. Dcr) (T& Type)) (!
   (=>
    (and
     (sized U&.)
     (sized T&.)
     (tr_bound%core!cmp.PartialEq. U&. U& U&. U&)
     (tr_bound%core!cmp.PartialEq. T&. T& T&. T&)
    )
    (tr_bound%core!cmp.PartialEq. (DST T&.) (TYPE%tuple%2. U&. U& T&. T&) (DST T&.) (TYPE%tuple%2.
      U&. U& T&. T&
   )))
   :pattern ((tr_bound%core!cmp.PartialEq. (DST T&.) (TYPE%tuple%2. U&. U& T&. T&) (DST
      T&.
     ) (TYPE%tuple%2. U&. U& T&. T&)
   ))
   :qid internal_core__tuple__impl&__10_trait_impl_definition
   :skolemid skolem_internal_core__tuple__impl&__10_trait_impl_definition
)))

;; Trait-Impl-Axiom
(assert
 (forall ((T&. Dcr) (T& Type) (A&. Dcr) (A& Type)) (!
   (=>
    (and
     (sized A&.)
     (tr_bound%core!cmp.PartialEq. T&. T& T&. T&)
     (tr_bound%core!alloc.Allocator. A&. A&)
    )
    (tr_bound%core!cmp.PartialEq. (BOX A&. A& T&.) T& (BOX A&. A& T&.) T&)
   )
   :pattern ((tr_bound%core!cmp.PartialEq. (BOX A&. A& T&.) T& (BOX A&. A& T&.) T&))
   :qid internal_alloc__boxed__impl&__18_trait_impl_definition
   :skolemid skolem_internal_alloc__boxed__impl&__18_trait_impl_definition
)))

;; Trait-Impl-Axiom
(assert
 (forall ((T&. Dcr) (T& Type) (A&. Dcr) (A& Type)) (!
   (=>
    (and
     (sized A&.)
     (tr_bound%core!cmp.PartialEq. T&. T& T&. T&)
     (tr_bound%core!alloc.Allocator. A&. A&)
    )
    (tr_bound%core!cmp.PartialEq. (RC A&. A& T&.) T& (RC A&. A& T&.) T&)
   )
   :pattern ((tr_bound%core!cmp.PartialEq. (RC A&. A& T&.) T& (RC A&. A& T&.) T&))
   :qid internal_alloc__rc__impl&__45_trait_impl_definition
   :skolemid skolem_internal_alloc__rc__impl&__45_trait_impl_definition
)))

;; Trait-Impl-Axiom
(assert
 (forall ((T&. Dcr) (T& Type) (A&. Dcr) (A& Type)) (!
   (=>
    (and
     (sized A&.)
     (tr_bound%core!cmp.PartialEq. T&. T& T&. T&)
     (tr_bound%core!alloc.Allocator. A&. A&)
    )
    (tr_bound%core!cmp.PartialEq. (ARC A&. A& T&.) T& (ARC A&. A& T&.) T&)
   )
   :pattern ((tr_bound%core!cmp.PartialEq. (ARC A&. A& T&.) T& (ARC A&. A& T&.) T&))
   :qid internal_alloc__sync__impl&__55_trait_impl_definition
   :skolemid skolem_internal_alloc__sync__impl&__55_trait_impl_definition
)))

;; Trait-Impl-Axiom
(assert
 (tr_bound%core!cmp.PartialEq. $ INT $ INT)
)

;; Trait-Impl-Axiom
(assert
 (tr_bound%core!cmp.PartialEq. $ NAT $ NAT)
)

;; Trait-Impl-Axiom
(assert
 (forall ((K&. Dcr) (K& Type) (V&. Dcr) (V& Type) (S&. Dcr) (S& Type) (A&. Dcr) (A& Type))
  (!
   (=>
    (and
     (sized K&.)
     (sized V&.)
     (sized S&.)
     (sized A&.)
     (tr_bound%core!cmp.Eq. K&. K&)
     (tr_bound%core!hash.Hash. K&. K&)
     (tr_bound%core!cmp.Eq. V&. V&)
     (tr_bound%core!hash.BuildHasher. S&. S&)
     (tr_bound%core!alloc.Allocator. A&. A&)
    )
    (tr_bound%core!cmp.Eq. $ (TYPE%std!collections.hash.map.HashMap. K&. K& V&. V& S&.
      S& A&. A&
   )))
   :pattern ((tr_bound%core!cmp.Eq. $ (TYPE%std!collections.hash.map.HashMap. K&. K& V&.
      V& S&. S& A&. A&
   )))
   :qid internal_std__collections__hash__map__impl&__7_trait_impl_definition
   :skolemid skolem_internal_std__collections__hash__map__impl&__7_trait_impl_definition
)))

;; Trait-Impl-Axiom
(assert
 (forall ((T&. Dcr) (T& Type)) (!
   (=>
    (and
     (sized T&.)
     (tr_bound%core!num.nonzero.ZeroablePrimitive. T&. T&)
     (tr_bound%core!cmp.Eq. T&. T&)
    )
    (tr_bound%core!cmp.Eq. $ (TYPE%core!num.nonzero.NonZero. T&. T&))
   )
   :pattern ((tr_bound%core!cmp.Eq. $ (TYPE%core!num.nonzero.NonZero. T&. T&)))
   :qid internal_core__num__nonzero__impl&__6_trait_impl_definition
   :skolemid skolem_internal_core__num__nonzero__impl&__6_trait_impl_definition
)))

;; Trait-Impl-Axiom
(assert
 (forall ((T&. Dcr) (T& Type)) (!
   (tr_bound%core!cmp.Eq. (CONST_PTR $) (PTR T&. T&))
   :pattern ((tr_bound%core!cmp.Eq. (CONST_PTR $) (PTR T&. T&)))
   :qid internal_core__ptr__const_ptr__impl&__8_trait_impl_definition
   :skolemid skolem_internal_core__ptr__const_ptr__impl&__8_trait_impl_definition
)))

;; Trait-Impl-Axiom
(assert
 (forall ((T&. Dcr) (T& Type)) (!
   (tr_bound%core!cmp.Eq. $ (PTR T&. T&))
   :pattern ((tr_bound%core!cmp.Eq. $ (PTR T&. T&)))
   :qid internal_core__ptr__mut_ptr__impl&__8_trait_impl_definition
   :skolemid skolem_internal_core__ptr__mut_ptr__impl&__8_trait_impl_definition
)))

;; Trait-Impl-Axiom
(assert
 (tr_bound%core!cmp.Eq. $ TYPE%tuple%0.)
)

;; Trait-Impl-Axiom
(assert
 (tr_bound%core!cmp.Eq. $ BOOL)
)

;; Trait-Impl-Axiom
(assert
 (tr_bound%core!cmp.Eq. $ CHAR)
)

;; Trait-Impl-Axiom
(assert
 (tr_bound%core!cmp.Eq. $ USIZE)
)

;; Trait-Impl-Axiom
(assert
 (tr_bound%core!cmp.Eq. $ (UINT 8))
)

;; Trait-Impl-Axiom
(assert
 (tr_bound%core!cmp.Eq. $ (UINT 16))
)

;; Trait-Impl-Axiom
(assert
 (tr_bound%core!cmp.Eq. $ (UINT 32))
)

;; Trait-Impl-Axiom
(assert
 (tr_bound%core!cmp.Eq. $ (UINT 64))
)

;; Trait-Impl-Axiom
(assert
 (tr_bound%core!cmp.Eq. $ (UINT 128))
)

;; Trait-Impl-Axiom
(assert
 (tr_bound%core!cmp.Eq. $ ISIZE)
)

;; Trait-Impl-Axiom
(assert
 (tr_bound%core!cmp.Eq. $ (SINT 8))
)

;; Trait-Impl-Axiom
(assert
 (tr_bound%core!cmp.Eq. $ (SINT 16))
)

;; Trait-Impl-Axiom
(assert
 (tr_bound%core!cmp.Eq. $ (SINT 32))
)

;; Trait-Impl-Axiom
(assert
 (tr_bound%core!cmp.Eq. $ (SINT 64))
)

;; Trait-Impl-Axiom
(assert
 (tr_bound%core!cmp.Eq. $ (SINT 128))
)

;; Trait-Impl-Axiom
(assert
 (forall ((A&. Dcr) (A& Type)) (!
   (=>
    (tr_bound%core!cmp.Eq. A&. A&)
    (tr_bound%core!cmp.Eq. (REF A&.) A&)
   )
   :pattern ((tr_bound%core!cmp.Eq. (REF A&.) A&))
   :qid internal_core__cmp__impls__impl&__12_trait_impl_definition
   :skolemid skolem_internal_core__cmp__impls__impl&__12_trait_impl_definition
)))

;; Trait-Impl-Axiom
(assert
 (forall ((A&. Dcr) (A& Type)) (!
   (=>
    (tr_bound%core!cmp.Eq. A&. A&)
    (tr_bound%core!cmp.Eq. $ (MUTREF A&. A&))
   )
   :pattern ((tr_bound%core!cmp.Eq. $ (MUTREF A&. A&)))
   :qid internal_core__cmp__impls__impl&__16_trait_impl_definition
   :skolemid skolem_internal_core__cmp__impls__impl&__16_trait_impl_definition
)))

;; Trait-Impl-Axiom
(assert
 (forall ((T&. Dcr) (T& Type)) (!
   (=>
    (and
     (sized T&.)
     (tr_bound%core!cmp.Eq. T&. T&)
    )
    (tr_bound%core!cmp.Eq. $ (TYPE%core!ops.range.Bound. T&. T&))
   )
   :pattern ((tr_bound%core!cmp.Eq. $ (TYPE%core!ops.range.Bound. T&. T&)))
   :qid internal_core__ops__range__impl&__79_trait_impl_definition
   :skolemid skolem_internal_core__ops__range__impl&__79_trait_impl_definition
)))

;; Trait-Impl-Axiom
(assert
 (forall ((T&. Dcr) (T& Type) (N&. Dcr) (N& Type)) (!
   (=>
    (and
     (sized T&.)
     (uInv SZ (const_int N&))
     (tr_bound%core!cmp.Eq. T&. T&)
    )
    (tr_bound%core!cmp.Eq. $ (ARRAY T&. T& N&. N&))
   )
   :pattern ((tr_bound%core!cmp.Eq. $ (ARRAY T&. T& N&. N&)))
   :qid internal_core__array__equality__impl&__7_trait_impl_definition
   :skolemid skolem_internal_core__array__equality__impl&__7_trait_impl_definition
)))

;; Trait-Impl-Axiom
(assert
 (forall ((T&. Dcr) (T& Type)) (!
   (=>
    (and
     (sized T&.)
     (tr_bound%core!cmp.Eq. T&. T&)
    )
    (tr_bound%core!cmp.Eq. $slice (SLICE T&. T&))
   )
   :pattern ((tr_bound%core!cmp.Eq. $slice (SLICE T&. T&)))
   :qid internal_core__slice__cmp__impl&__1_trait_impl_definition
   :skolemid skolem_internal_core__slice__cmp__impl&__1_trait_impl_definition
)))

;; Trait-Impl-Axiom
(assert
 (tr_bound%core!cmp.Eq. $slice STRSLICE)
)

;; Trait-Impl-Axiom
(assert
 (forall ((U&. Dcr) (U& Type) (T&. Dcr) (T& Type)) (!
   (=>
    (and
     (sized U&.)
     (sized T&.)
     (tr_bound%core!cmp.Eq. U&. U&)
     (tr_bound%core!cmp.Eq. T&. T&)
    )
    (tr_bound%core!cmp.Eq. (DST T&.) (TYPE%tuple%2. U&. U& T&. T&))
   )
   :pattern ((tr_bound%core!cmp.Eq. (DST T&.) (TYPE%tuple%2. U&. U& T&. T&)))
   :qid internal_core__tuple__impl&__11_trait_impl_definition
   :skolemid skolem_internal_core__tuple__impl&__11_trait_impl_definition
)))

;; Trait-Impl-Axiom
(assert
 (forall ((T&. Dcr) (T& Type) (A&. Dcr) (A& Type)) (!
   (=>
    (and
     (sized A&.)
     (tr_bound%core!cmp.Eq. T&. T&)
     (tr_bound%core!alloc.Allocator. A&. A&)
    )
    (tr_bound%core!cmp.Eq. (BOX A&. A& T&.) T&)
   )
   :pattern ((tr_bound%core!cmp.Eq. (BOX A&. A& T&.) T&))
   :qid internal_alloc__boxed__impl&__21_trait_impl_definition
   :skolemid skolem_internal_alloc__boxed__impl&__21_trait_impl_definition
)))

;; Trait-Impl-Axiom
(assert
 (forall ((T&. Dcr) (T& Type) (A&. Dcr) (A& Type)) (!
   (=>
    (and
     (sized A&.)
     (tr_bound%core!cmp.Eq. T&. T&)
     (tr_bound%core!alloc.Allocator. A&. A&)
    )
    (tr_bound%core!cmp.Eq. (RC A&. A& T&.) T&)
   )
   :pattern ((tr_bound%core!cmp.Eq. (RC A&. A& T&.) T&))
   :qid internal_alloc__rc__impl&__46_trait_impl_definition
   :skolemid skolem_internal_alloc__rc__impl&__46_trait_impl_definition
)))

;; Trait-Impl-Axiom
(assert
 (tr_bound%core!cmp.Eq. $ TYPE%alloc!string.String.)
)

;; Trait-Impl-Axiom
(assert
 (forall ((T&. Dcr) (T& Type) (A&. Dcr) (A& Type)) (!
   (=>
    (and
     (sized A&.)
     (tr_bound%core!cmp.Eq. T&. T&)
     (tr_bound%core!alloc.Allocator. A&. A&)
    )
    (tr_bound%core!cmp.Eq. (ARC A&. A& T&.) T&)
   )
   :pattern ((tr_bound%core!cmp.Eq. (ARC A&. A& T&.) T&))
   :qid internal_alloc__sync__impl&__58_trait_impl_definition
   :skolemid skolem_internal_alloc__sync__impl&__58_trait_impl_definition
)))

;; Trait-Impl-Axiom
(assert
 (tr_bound%core!cmp.Eq. $ INT)
)

;; Trait-Impl-Axiom
(assert
 (tr_bound%core!cmp.Eq. $ NAT)
)

;; Trait-Impl-Axiom
(assert
 (forall ((T&. Dcr) (T& Type)) (!
   (=>
    (sized T&.)
    (tr_bound%core!convert.From. T&. T& T&. T&)
   )
   :pattern ((tr_bound%core!convert.From. T&. T& T&. T&))
   :qid internal_core__convert__impl&__4_trait_impl_definition
   :skolemid skolem_internal_core__convert__impl&__4_trait_impl_definition
)))

;; Trait-Impl-Axiom
(assert
 (forall ((K&. Dcr) (K& Type) (V&. Dcr) (V& Type) (N&. Dcr) (N& Type)) (!
   (=>
    (and
     (sized K&.)
     (sized V&.)
     (uInv SZ (const_int N&))
     (tr_bound%core!cmp.Eq. K&. K&)
     (tr_bound%core!hash.Hash. K&. K&)
    )
    (tr_bound%core!convert.From. $ (TYPE%std!collections.hash.map.HashMap. K&. K& V&. V&
      $ TYPE%std!hash.random.RandomState. $ TYPE%alloc!alloc.Global.
     ) $ (ARRAY (DST V&.) (TYPE%tuple%2. K&. K& V&. V&) N&. N&)
   ))
   :pattern ((tr_bound%core!convert.From. $ (TYPE%std!collections.hash.map.HashMap. K&.
      K& V&. V& $ TYPE%std!hash.random.RandomState. $ TYPE%alloc!alloc.Global.
     ) $ (ARRAY (DST V&.) (TYPE%tuple%2. K&. K& V&. V&) N&. N&)
   ))
   :qid internal_std__collections__hash__map__impl&__11_trait_impl_definition
   :skolemid skolem_internal_std__collections__hash__map__impl&__11_trait_impl_definition
)))

;; Trait-Impl-Axiom
(assert
 (forall ((T&. Dcr) (T& Type)) (!
   (=>
    (sized T&.)
    (tr_bound%core!convert.From. (BOX $ TYPE%alloc!alloc.Global. T&.) T& T&. T&)
   )
   :pattern ((tr_bound%core!convert.From. (BOX $ TYPE%alloc!alloc.Global. T&.) T& T&.
     T&
   ))
   :qid internal_alloc__boxed__convert__impl&__0_trait_impl_definition
   :skolemid skolem_internal_alloc__boxed__convert__impl&__0_trait_impl_definition
)))

;; Trait-Impl-Axiom
(assert
 (forall ((T&. Dcr) (T& Type)) (!
   (=>
    (and
     (sized T&.)
     (tr_bound%core!clone.Clone. T&. T&)
    )
    (tr_bound%core!convert.From. (BOX $ TYPE%alloc!alloc.Global. $slice) (SLICE T&. T&)
     (REF $slice) (SLICE T&. T&)
   ))
   :pattern ((tr_bound%core!convert.From. (BOX $ TYPE%alloc!alloc.Global. $slice) (SLICE
      T&. T&
     ) (REF $slice) (SLICE T&. T&)
   ))
   :qid internal_alloc__boxed__convert__impl&__2_trait_impl_definition
   :skolemid skolem_internal_alloc__boxed__convert__impl&__2_trait_impl_definition
)))

;; Trait-Impl-Axiom
(assert
 (forall ((T&. Dcr) (T& Type)) (!
   (=>
    (and
     (sized T&.)
     (tr_bound%core!clone.Clone. T&. T&)
    )
    (tr_bound%core!convert.From. (BOX $ TYPE%alloc!alloc.Global. $slice) (SLICE T&. T&)
     $ (MUTREF $slice (SLICE T&. T&))
   ))
   :pattern ((tr_bound%core!convert.From. (BOX $ TYPE%alloc!alloc.Global. $slice) (SLICE
      T&. T&
     ) $ (MUTREF $slice (SLICE T&. T&))
   ))
   :qid internal_alloc__boxed__convert__impl&__3_trait_impl_definition
   :skolemid skolem_internal_alloc__boxed__convert__impl&__3_trait_impl_definition
)))

;; Trait-Impl-Axiom
(assert
 (tr_bound%core!convert.From. (BOX $ TYPE%alloc!alloc.Global. $slice) STRSLICE (REF
   $slice
  ) STRSLICE
))

;; Trait-Impl-Axiom
(assert
 (tr_bound%core!convert.From. (BOX $ TYPE%alloc!alloc.Global. $slice) STRSLICE $ (MUTREF
   $slice STRSLICE
)))

;; Trait-Impl-Axiom
(assert
 (forall ((A&. Dcr) (A& Type)) (!
   (=>
    (and
     (sized A&.)
     (tr_bound%core!alloc.Allocator. A&. A&)
    )
    (tr_bound%core!convert.From. (BOX A&. A& $slice) (SLICE $ (UINT 8)) (BOX A&. A& $slice)
     STRSLICE
   ))
   :pattern ((tr_bound%core!convert.From. (BOX A&. A& $slice) (SLICE $ (UINT 8)) (BOX A&.
      A& $slice
     ) STRSLICE
   ))
   :qid internal_alloc__boxed__convert__impl&__8_trait_impl_definition
   :skolemid skolem_internal_alloc__boxed__convert__impl&__8_trait_impl_definition
)))

;; Trait-Impl-Axiom
(assert
 (forall ((T&. Dcr) (T& Type) (N&. Dcr) (N& Type)) (!
   (=>
    (and
     (sized T&.)
     (uInv SZ (const_int N&))
    )
    (tr_bound%core!convert.From. (BOX $ TYPE%alloc!alloc.Global. $slice) (SLICE T&. T&)
     $ (ARRAY T&. T& N&. N&)
   ))
   :pattern ((tr_bound%core!convert.From. (BOX $ TYPE%alloc!alloc.Global. $slice) (SLICE
      T&. T&
     ) $ (ARRAY T&. T& N&. N&)
   ))
   :qid internal_alloc__boxed__convert__impl&__9_trait_impl_definition
   :skolemid skolem_internal_alloc__boxed__convert__impl&__9_trait_impl_definition
)))

;; Trait-Impl-Axiom
(assert
 (tr_bound%core!convert.From. (BOX $ TYPE%alloc!alloc.Global. $slice) STRSLICE $ TYPE%alloc!string.String.)
)

;; Trait-Impl-Axiom
(assert
 (forall ((T&. Dcr) (T& Type)) (!
   (=>
    (sized T&.)
    (tr_bound%core!convert.From. (ARC $ TYPE%alloc!alloc.Global. T&.) T& T&. T&)
   )
   :pattern ((tr_bound%core!convert.From. (ARC $ TYPE%alloc!alloc.Global. T&.) T& T&.
     T&
   ))
   :qid internal_alloc__sync__impl&__68_trait_impl_definition
   :skolemid skolem_internal_alloc__sync__impl&__68_trait_impl_definition
)))

;; Trait-Impl-Axiom
(assert
 (forall ((T&. Dcr) (T& Type) (N&. Dcr) (N& Type)) (!
   (=>
    (and
     (sized T&.)
     (uInv SZ (const_int N&))
    )
    (tr_bound%core!convert.From. (ARC $ TYPE%alloc!alloc.Global. $slice) (SLICE T&. T&)
     $ (ARRAY T&. T& N&. N&)
   ))
   :pattern ((tr_bound%core!convert.From. (ARC $ TYPE%alloc!alloc.Global. $slice) (SLICE
      T&. T&
     ) $ (ARRAY T&. T& N&. N&)
   ))
   :qid internal_alloc__sync__impl&__69_trait_impl_definition
   :skolemid skolem_internal_alloc__sync__impl&__69_trait_impl_definition
)))

;; Trait-Impl-Axiom
(assert
 (forall ((T&. Dcr) (T& Type)) (!
   (=>
    (and
     (sized T&.)
     (tr_bound%core!clone.Clone. T&. T&)
    )
    (tr_bound%core!convert.From. (ARC $ TYPE%alloc!alloc.Global. $slice) (SLICE T&. T&)
     (REF $slice) (SLICE T&. T&)
   ))
   :pattern ((tr_bound%core!convert.From. (ARC $ TYPE%alloc!alloc.Global. $slice) (SLICE
      T&. T&
     ) (REF $slice) (SLICE T&. T&)
   ))
   :qid internal_alloc__sync__impl&__70_trait_impl_definition
   :skolemid skolem_internal_alloc__sync__impl&__70_trait_impl_definition
)))

;; Trait-Impl-Axiom
(assert
 (forall ((T&. Dcr) (T& Type)) (!
   (=>
    (and
     (sized T&.)
     (tr_bound%core!clone.Clone. T&. T&)
    )
    (tr_bound%core!convert.From. (ARC $ TYPE%alloc!alloc.Global. $slice) (SLICE T&. T&)
     $ (MUTREF $slice (SLICE T&. T&))
   ))
   :pattern ((tr_bound%core!convert.From. (ARC $ TYPE%alloc!alloc.Global. $slice) (SLICE
      T&. T&
     ) $ (MUTREF $slice (SLICE T&. T&))
   ))
   :qid internal_alloc__sync__impl&__71_trait_impl_definition
   :skolemid skolem_internal_alloc__sync__impl&__71_trait_impl_definition
)))

;; Trait-Impl-Axiom
(assert
 (tr_bound%core!convert.From. (ARC $ TYPE%alloc!alloc.Global. $slice) STRSLICE (REF
   $slice
  ) STRSLICE
))

;; Trait-Impl-Axiom
(assert
 (tr_bound%core!convert.From. (ARC $ TYPE%alloc!alloc.Global. $slice) STRSLICE $ (MUTREF
   $slice STRSLICE
)))

;; Trait-Impl-Axiom
(assert
 (tr_bound%core!convert.From. (ARC $ TYPE%alloc!alloc.Global. $slice) STRSLICE $ TYPE%alloc!string.String.)
)

;; Trait-Impl-Axiom
(assert
 (forall ((T&. Dcr) (T& Type) (A&. Dcr) (A& Type)) (!
   (=>
    (and
     (sized A&.)
     (tr_bound%core!alloc.Allocator. A&. A&)
    )
    (tr_bound%core!convert.From. (ARC A&. A& T&.) T& (BOX A&. A& T&.) T&)
   )
   :pattern ((tr_bound%core!convert.From. (ARC A&. A& T&.) T& (BOX A&. A& T&.) T&))
   :qid internal_alloc__sync__impl&__75_trait_impl_definition
   :skolemid skolem_internal_alloc__sync__impl&__75_trait_impl_definition
)))

;; Trait-Impl-Axiom
(assert
 (tr_bound%core!convert.From. (ARC $ TYPE%alloc!alloc.Global. $slice) (SLICE $ (UINT
    8
   )
  ) (ARC $ TYPE%alloc!alloc.Global. $slice) STRSLICE
))

;; Trait-Impl-Axiom
(assert
 (forall ((T&. Dcr) (T& Type)) (!
   (=>
    (sized T&.)
    (tr_bound%core!convert.From. (RC $ TYPE%alloc!alloc.Global. T&.) T& T&. T&)
   )
   :pattern ((tr_bound%core!convert.From. (RC $ TYPE%alloc!alloc.Global. T&.) T& T&. T&))
   :qid internal_alloc__rc__impl&__53_trait_impl_definition
   :skolemid skolem_internal_alloc__rc__impl&__53_trait_impl_definition
)))

;; Trait-Impl-Axiom
(assert
 (forall ((T&. Dcr) (T& Type) (N&. Dcr) (N& Type)) (!
   (=>
    (and
     (sized T&.)
     (uInv SZ (const_int N&))
    )
    (tr_bound%core!convert.From. (RC $ TYPE%alloc!alloc.Global. $slice) (SLICE T&. T&)
     $ (ARRAY T&. T& N&. N&)
   ))
   :pattern ((tr_bound%core!convert.From. (RC $ TYPE%alloc!alloc.Global. $slice) (SLICE
      T&. T&
     ) $ (ARRAY T&. T& N&. N&)
   ))
   :qid internal_alloc__rc__impl&__54_trait_impl_definition
   :skolemid skolem_internal_alloc__rc__impl&__54_trait_impl_definition
)))

;; Trait-Impl-Axiom
(assert
 (forall ((T&. Dcr) (T& Type)) (!
   (=>
    (and
     (sized T&.)
     (tr_bound%core!clone.Clone. T&. T&)
    )
    (tr_bound%core!convert.From. (RC $ TYPE%alloc!alloc.Global. $slice) (SLICE T&. T&)
     (REF $slice) (SLICE T&. T&)
   ))
   :pattern ((tr_bound%core!convert.From. (RC $ TYPE%alloc!alloc.Global. $slice) (SLICE
      T&. T&
     ) (REF $slice) (SLICE T&. T&)
   ))
   :qid internal_alloc__rc__impl&__55_trait_impl_definition
   :skolemid skolem_internal_alloc__rc__impl&__55_trait_impl_definition
)))

;; Trait-Impl-Axiom
(assert
 (forall ((T&. Dcr) (T& Type)) (!
   (=>
    (and
     (sized T&.)
     (tr_bound%core!clone.Clone. T&. T&)
    )
    (tr_bound%core!convert.From. (RC $ TYPE%alloc!alloc.Global. $slice) (SLICE T&. T&)
     $ (MUTREF $slice (SLICE T&. T&))
   ))
   :pattern ((tr_bound%core!convert.From. (RC $ TYPE%alloc!alloc.Global. $slice) (SLICE
      T&. T&
     ) $ (MUTREF $slice (SLICE T&. T&))
   ))
   :qid internal_alloc__rc__impl&__56_trait_impl_definition
   :skolemid skolem_internal_alloc__rc__impl&__56_trait_impl_definition
)))

;; Trait-Impl-Axiom
(assert
 (tr_bound%core!convert.From. (RC $ TYPE%alloc!alloc.Global. $slice) STRSLICE (REF $slice)
  STRSLICE
))

;; Trait-Impl-Axiom
(assert
 (tr_bound%core!convert.From. (RC $ TYPE%alloc!alloc.Global. $slice) STRSLICE $ (MUTREF
   $slice STRSLICE
)))

;; Trait-Impl-Axiom
(assert
 (tr_bound%core!convert.From. (RC $ TYPE%alloc!alloc.Global. $slice) STRSLICE $ TYPE%alloc!string.String.)
)

;; Trait-Impl-Axiom
(assert
 (forall ((T&. Dcr) (T& Type) (A&. Dcr) (A& Type)) (!
   (=>
    (and
     (sized A&.)
     (tr_bound%core!alloc.Allocator. A&. A&)
    )
    (tr_bound%core!convert.From. (RC A&. A& T&.) T& (BOX A&. A& T&.) T&)
   )
   :pattern ((tr_bound%core!convert.From. (RC A&. A& T&.) T& (BOX A&. A& T&.) T&))
   :qid internal_alloc__rc__impl&__60_trait_impl_definition
   :skolemid skolem_internal_alloc__rc__impl&__60_trait_impl_definition
)))

;; Trait-Impl-Axiom
(assert
 (tr_bound%core!convert.From. (RC $ TYPE%alloc!alloc.Global. $slice) (SLICE $ (UINT 8))
  (RC $ TYPE%alloc!alloc.Global. $slice) STRSLICE
))

;; Trait-Impl-Axiom
(assert
 (tr_bound%core!convert.From. $ (TYPE%core!num.nonzero.NonZero. $ (UINT 16)) $ (TYPE%core!num.nonzero.NonZero.
   $ (UINT 8)
)))

;; Trait-Impl-Axiom
(assert
 (tr_bound%core!convert.From. $ (TYPE%core!num.nonzero.NonZero. $ (UINT 32)) $ (TYPE%core!num.nonzero.NonZero.
   $ (UINT 8)
)))

;; Trait-Impl-Axiom
(assert
 (tr_bound%core!convert.From. $ (TYPE%core!num.nonzero.NonZero. $ (UINT 64)) $ (TYPE%core!num.nonzero.NonZero.
   $ (UINT 8)
)))

;; Trait-Impl-Axiom
(assert
 (tr_bound%core!convert.From. $ (TYPE%core!num.nonzero.NonZero. $ (UINT 128)) $ (TYPE%core!num.nonzero.NonZero.
   $ (UINT 8)
)))

;; Trait-Impl-Axiom
(assert
 (tr_bound%core!convert.From. $ (TYPE%core!num.nonzero.NonZero. $ USIZE) $ (TYPE%core!num.nonzero.NonZero.
   $ (UINT 8)
)))

;; Trait-Impl-Axiom
(assert
 (tr_bound%core!convert.From. $ (TYPE%core!num.nonzero.NonZero. $ (UINT 32)) $ (TYPE%core!num.nonzero.NonZero.
   $ (UINT 16)
)))

;; Trait-Impl-Axiom
(assert
 (tr_bound%core!convert.From. $ (TYPE%core!num.nonzero.NonZero. $ (UINT 64)) $ (TYPE%core!num.nonzero.NonZero.
   $ (UINT 16)
)))

;; Trait-Impl-Axiom
(assert
 (tr_bound%core!convert.From. $ (TYPE%core!num.nonzero.NonZero. $ (UINT 128)) $ (TYPE%core!num.nonzero.NonZero.
   $ (UINT 16)
)))

;; Trait-Impl-Axiom
(assert
 (tr_bound%core!convert.From. $ (TYPE%core!num.nonzero.NonZero. $ USIZE) $ (TYPE%core!num.nonzero.NonZero.
   $ (UINT 16)
)))

;; Trait-Impl-Axiom
(assert
 (tr_bound%core!convert.From. $ (TYPE%core!num.nonzero.NonZero. $ (UINT 64)) $ (TYPE%core!num.nonzero.NonZero.
   $ (UINT 32)
)))

;; Trait-Impl-Axiom
(assert
 (tr_bound%core!convert.From. $ (TYPE%core!num.nonzero.NonZero. $ (UINT 128)) $ (TYPE%core!num.nonzero.NonZero.
   $ (UINT 32)
)))

;; Trait-Impl-Axiom
(assert
 (tr_bound%core!convert.From. $ (TYPE%core!num.nonzero.NonZero. $ (UINT 128)) $ (TYPE%core!num.nonzero.NonZero.
   $ (UINT 64)
)))

;; Trait-Impl-Axiom
(assert
 (tr_bound%core!convert.From. $ (TYPE%core!num.nonzero.NonZero. $ (SINT 16)) $ (TYPE%core!num.nonzero.NonZero.
   $ (SINT 8)
)))

;; Trait-Impl-Axiom
(assert
 (tr_bound%core!convert.From. $ (TYPE%core!num.nonzero.NonZero. $ (SINT 32)) $ (TYPE%core!num.nonzero.NonZero.
   $ (SINT 8)
)))

;; Trait-Impl-Axiom
(assert
 (tr_bound%core!convert.From. $ (TYPE%core!num.nonzero.NonZero. $ (SINT 64)) $ (TYPE%core!num.nonzero.NonZero.
   $ (SINT 8)
)))

;; Trait-Impl-Axiom
(assert
 (tr_bound%core!convert.From. $ (TYPE%core!num.nonzero.NonZero. $ (SINT 128)) $ (TYPE%core!num.nonzero.NonZero.
   $ (SINT 8)
)))

;; Trait-Impl-Axiom
(assert
 (tr_bound%core!convert.From. $ (TYPE%core!num.nonzero.NonZero. $ ISIZE) $ (TYPE%core!num.nonzero.NonZero.
   $ (SINT 8)
)))

;; Trait-Impl-Axiom
(assert
 (tr_bound%core!convert.From. $ (TYPE%core!num.nonzero.NonZero. $ (SINT 32)) $ (TYPE%core!num.nonzero.NonZero.
   $ (SINT 16)
)))

;; Trait-Impl-Axiom
(assert
 (tr_bound%core!convert.From. $ (TYPE%core!num.nonzero.NonZero. $ (SINT 64)) $ (TYPE%core!num.nonzero.NonZero.
   $ (SINT 16)
)))

;; Trait-Impl-Axiom
(assert
 (tr_bound%core!convert.From. $ (TYPE%core!num.nonzero.NonZero. $ (SINT 128)) $ (TYPE%core!num.nonzero.NonZero.
   $ (SINT 16)
)))

;; Trait-Impl-Axiom
(assert
 (tr_bound%core!convert.From. $ (TYPE%core!num.nonzero.NonZero. $ ISIZE) $ (TYPE%core!num.nonzero.NonZero.
   $ (SINT 16)
)))

;; Trait-Impl-Axiom
(assert
 (tr_bound%core!convert.From. $ (TYPE%core!num.nonzero.NonZero. $ (SINT 64)) $ (TYPE%core!num.nonzero.NonZero.
   $ (SINT 32)
)))

;; Trait-Impl-Axiom
(assert
 (tr_bound%core!convert.From. $ (TYPE%core!num.nonzero.NonZero. $ (SINT 128)) $ (TYPE%core!num.nonzero.NonZero.
   $ (SINT 32)
)))

;; Trait-Impl-Axiom
(assert
 (tr_bound%core!convert.From. $ (TYPE%core!num.nonzero.NonZero. $ (SINT 128)) $ (TYPE%core!num.nonzero.NonZero.
   $ (SINT 64)
)))

;; Trait-Impl-Axiom
(assert
 (tr_bound%core!convert.From. $ (TYPE%core!num.nonzero.NonZero. $ (SINT 16)) $ (TYPE%core!num.nonzero.NonZero.
   $ (UINT 8)
)))

;; Trait-Impl-Axiom
(assert
 (tr_bound%core!convert.From. $ (TYPE%core!num.nonzero.NonZero. $ (SINT 32)) $ (TYPE%core!num.nonzero.NonZero.
   $ (UINT 8)
)))

;; Trait-Impl-Axiom
(assert
 (tr_bound%core!convert.From. $ (TYPE%core!num.nonzero.NonZero. $ (SINT 64)) $ (TYPE%core!num.nonzero.NonZero.
   $ (UINT 8)
)))

;; Trait-Impl-Axiom
(assert
 (tr_bound%core!convert.From. $ (TYPE%core!num.nonzero.NonZero. $ (SINT 128)) $ (TYPE%core!num.nonzero.NonZero.
   $ (UINT 8)
)))

;; Trait-Impl-Axiom
(assert
 (tr_bound%core!convert.From. $ (TYPE%core!num.nonzero.NonZero. $ ISIZE) $ (TYPE%core!num.nonzero.NonZero.
   $ (UINT 8)
)))

;; Trait-Impl-Axiom
(assert
 (tr_bound%core!convert.From. $ (TYPE%core!num.nonzero.NonZero. $ (SINT 32)) $ (TYPE%core!num.nonzero.NonZero.
   $ (UINT 16)
)))

;; Trait-Impl-Axiom
(assert
 (tr_bound%core!convert.From. $ (TYPE%core!num.nonzero.NonZero. $ (SINT 64)) $ (TYPE%core!num.nonzero.NonZero.
   $ (UINT 16)
)))

;; Trait-Impl-Axiom
(assert
 (tr_bound%core!convert.From. $ (TYPE%core!num.nonzero.NonZero. $ (SINT 128)) $ (TYPE%core!num.nonzero.NonZero.
   $ (UINT 16)
)))

;; Trait-Impl-Axiom
(assert
 (tr_bound%core!convert.From. $ (TYPE%core!num.nonzero.NonZero. $ (SINT 64)) $ (TYPE%core!num.nonzero.NonZero.
   $ (UINT 32)
)))

;; Trait-Impl-Axiom
(assert
 (tr_bound%core!convert.From. $ (TYPE%core!num.nonzero.NonZero. $ (SINT 128)) $ (TYPE%core!num.nonzero.NonZero.
   $ (UINT 32)
)))

;; Trait-Impl-Axiom
(assert
 (tr_bound%core!convert.From. $ (TYPE%core!num.nonzero.NonZero. $ (SINT 128)) $ (TYPE%core!num.nonzero.NonZero.
   $ (UINT 64)
)))

;; Trait-Impl-Axiom
(assert
 (tr_bound%core!convert.From. $ USIZE $ BOOL)
)

;; Trait-Impl-Axiom
(assert
 (forall ((T&. Dcr) (T& Type)) (!
   (=>
    (sized T&.)
    (tr_bound%core!convert.From. $ (ARRAY T&. T& $ (CONST_INT 2)) (DST T&.) (TYPE%tuple%2.
      T&. T& T&. T&
   )))
   :pattern ((tr_bound%core!convert.From. $ (ARRAY T&. T& $ (CONST_INT 2)) (DST T&.) (
      TYPE%tuple%2. T&. T& T&. T&
   )))
   :qid internal_core__tuple__impl&__18_trait_impl_definition
   :skolemid skolem_internal_core__tuple__impl&__18_trait_impl_definition
)))

;; Trait-Impl-Axiom
(assert
 (tr_bound%core!convert.From. $ (UINT 8) $ BOOL)
)

;; Trait-Impl-Axiom
(assert
 (tr_bound%core!convert.From. $ (UINT 16) $ BOOL)
)

;; Trait-Impl-Axiom
(assert
 (tr_bound%core!convert.From. $ (UINT 32) $ BOOL)
)

;; Trait-Impl-Axiom
(assert
 (tr_bound%core!convert.From. $ (UINT 32) $ CHAR)
)

;; Trait-Impl-Axiom
(assert
 (tr_bound%core!convert.From. $ (UINT 64) $ BOOL)
)

;; Trait-Impl-Axiom
(assert
 (tr_bound%core!convert.From. $ (UINT 64) $ CHAR)
)

;; Trait-Impl-Axiom
(assert
 (tr_bound%core!convert.From. $ (UINT 128) $ BOOL)
)

;; Trait-Impl-Axiom
(assert
 (tr_bound%core!convert.From. $ (UINT 128) $ CHAR)
)

;; Trait-Impl-Axiom
(assert
 (tr_bound%core!convert.From. $ (SINT 8) $ BOOL)
)

;; Trait-Impl-Axiom
(assert
 (tr_bound%core!convert.From. $ (SINT 16) $ BOOL)
)

;; Trait-Impl-Axiom
(assert
 (tr_bound%core!convert.From. $ (SINT 16) $ (UINT 8))
)

;; Trait-Impl-Axiom
(assert
 (tr_bound%core!convert.From. $ (SINT 32) $ BOOL)
)

;; Trait-Impl-Axiom
(assert
 (tr_bound%core!convert.From. $ (SINT 32) $ (UINT 8))
)

;; Trait-Impl-Axiom
(assert
 (tr_bound%core!convert.From. $ (SINT 32) $ (UINT 16))
)

;; Trait-Impl-Axiom
(assert
 (tr_bound%core!convert.From. $ (SINT 64) $ BOOL)
)

;; Trait-Impl-Axiom
(assert
 (tr_bound%core!convert.From. $ (SINT 64) $ (UINT 8))
)

;; Trait-Impl-Axiom
(assert
 (tr_bound%core!convert.From. $ (SINT 64) $ (UINT 16))
)

;; Trait-Impl-Axiom
(assert
 (tr_bound%core!convert.From. $ (SINT 64) $ (UINT 32))
)

;; Trait-Impl-Axiom
(assert
 (tr_bound%core!convert.From. $ (SINT 128) $ BOOL)
)

;; Trait-Impl-Axiom
(assert
 (tr_bound%core!convert.From. $ (SINT 128) $ (UINT 8))
)

;; Trait-Impl-Axiom
(assert
 (tr_bound%core!convert.From. $ (SINT 128) $ (UINT 16))
)

;; Trait-Impl-Axiom
(assert
 (tr_bound%core!convert.From. $ (SINT 128) $ (UINT 32))
)

;; Trait-Impl-Axiom
(assert
 (tr_bound%core!convert.From. $ (SINT 128) $ (UINT 64))
)

;; Trait-Impl-Axiom
(assert
 (tr_bound%core!convert.From. $ ISIZE $ BOOL)
)

;; Trait-Impl-Axiom
(assert
 (tr_bound%core!convert.From. $ ISIZE $ (UINT 8))
)

;; Trait-Impl-Axiom
(assert
 (tr_bound%core!convert.From. $ CHAR $ (UINT 8))
)

;; Trait-Impl-Axiom
(assert
 (forall ((T&. Dcr) (T& Type)) (!
   (=>
    (sized T&.)
    (tr_bound%core!convert.From. (DST T&.) (TYPE%tuple%2. T&. T& T&. T&) $ (ARRAY T&. T&
      $ (CONST_INT 2)
   )))
   :pattern ((tr_bound%core!convert.From. (DST T&.) (TYPE%tuple%2. T&. T& T&. T&) $ (ARRAY
      T&. T& $ (CONST_INT 2)
   )))
   :qid internal_core__tuple__impl&__17_trait_impl_definition
   :skolemid skolem_internal_core__tuple__impl&__17_trait_impl_definition
)))

;; Trait-Impl-Axiom
(assert
 (tr_bound%core!convert.From. $ TYPE%alloc!string.String. (REF $slice) STRSLICE)
)

;; Trait-Impl-Axiom
(assert
 (tr_bound%core!convert.From. $ TYPE%alloc!string.String. $ (MUTREF $slice STRSLICE))
)

;; Trait-Impl-Axiom
(assert
 (tr_bound%core!convert.From. $ TYPE%alloc!string.String. (REF $) TYPE%alloc!string.String.)
)

;; Trait-Impl-Axiom
(assert
 (tr_bound%core!convert.From. $ TYPE%alloc!string.String. (BOX $ TYPE%alloc!alloc.Global.
   $slice
  ) STRSLICE
))

;; Trait-Impl-Axiom
(assert
 (tr_bound%core!convert.From. $ TYPE%alloc!string.String. $ CHAR)
)

;; Trait-Impl-Axiom
(assert
 (forall ((T&. Dcr) (T& Type)) (!
   (=>
    (and
     (sized T&.)
     (tr_bound%core!num.nonzero.ZeroablePrimitive. T&. T&)
    )
    (tr_bound%core!marker.Copy. $ (TYPE%core!num.nonzero.NonZero. T&. T&))
   )
   :pattern ((tr_bound%core!marker.Copy. $ (TYPE%core!num.nonzero.NonZero. T&. T&)))
   :qid internal_core__num__nonzero__impl&__2_trait_impl_definition
   :skolemid skolem_internal_core__num__nonzero__impl&__2_trait_impl_definition
)))

;; Trait-Impl-Axiom
(assert
 (tr_bound%core!marker.Copy. $ BOOL)
)

;; Trait-Impl-Axiom
(assert
 (forall ((T&. Dcr) (T& Type)) (!
   (tr_bound%core!marker.Copy. (CONST_PTR $) (PTR T&. T&))
   :pattern ((tr_bound%core!marker.Copy. (CONST_PTR $) (PTR T&. T&)))
   :qid internal_core__marker__impl&__58_trait_impl_definition
   :skolemid skolem_internal_core__marker__impl&__58_trait_impl_definition
)))

;; Trait-Impl-Axiom
(assert
 (forall ((T&. Dcr) (T& Type)) (!
   (tr_bound%core!marker.Copy. $ (PTR T&. T&))
   :pattern ((tr_bound%core!marker.Copy. $ (PTR T&. T&)))
   :qid internal_core__marker__impl&__59_trait_impl_definition
   :skolemid skolem_internal_core__marker__impl&__59_trait_impl_definition
)))

;; Trait-Impl-Axiom
(assert
 (forall ((T&. Dcr) (T& Type)) (!
   (tr_bound%core!marker.Copy. (REF T&.) T&)
   :pattern ((tr_bound%core!marker.Copy. (REF T&.) T&))
   :qid internal_core__marker__impl&__4_trait_impl_definition
   :skolemid skolem_internal_core__marker__impl&__4_trait_impl_definition
)))

;; Trait-Impl-Axiom
(assert
 (forall ((T&. Dcr) (T& Type)) (!
   (=>
    (and
     (sized T&.)
     (tr_bound%core!marker.Copy. T&. T&)
    )
    (tr_bound%core!marker.Copy. $ (TYPE%core!ops.range.Bound. T&. T&))
   )
   :pattern ((tr_bound%core!marker.Copy. $ (TYPE%core!ops.range.Bound. T&. T&)))
   :qid internal_core__ops__range__impl&__75_trait_impl_definition
   :skolemid skolem_internal_core__ops__range__impl&__75_trait_impl_definition
)))

;; Trait-Impl-Axiom
(assert
 (forall ((T&. Dcr) (T& Type) (N&. Dcr) (N& Type)) (!
   (=>
    (and
     (sized T&.)
     (uInv SZ (const_int N&))
     (tr_bound%core!marker.Copy. T&. T&)
    )
    (tr_bound%core!marker.Copy. $ (ARRAY T&. T& N&. N&))
   )
   :pattern ((tr_bound%core!marker.Copy. $ (ARRAY T&. T& N&. N&)))
   :qid internal_core__array__impl&__19_trait_impl_definition
   :skolemid skolem_internal_core__array__impl&__19_trait_impl_definition
)))

;; Trait-Impl-Axiom
(assert
 (tr_bound%core!marker.Copy. $ TYPE%alloc!alloc.Global.)
)

;; Trait-Impl-Axiom
(assert
 (forall ((A&. Dcr) (A& Type)) (!
   (=>
    (sized A&.)
    (tr_bound%core!marker.Copy. (GHOST A&.) A&)
   )
   :pattern ((tr_bound%core!marker.Copy. (GHOST A&.) A&))
   :qid internal_verus_builtin__impl&__8_trait_impl_definition
   :skolemid skolem_internal_verus_builtin__impl&__8_trait_impl_definition
)))

;; Trait-Impl-Axiom
(assert
 (forall ((A&. Dcr) (A& Type)) (!
   (=>
    (and
     (sized A&.)
     (tr_bound%core!marker.Copy. A&. A&)
    )
    (tr_bound%core!marker.Copy. (TRACKED A&.) A&)
   )
   :pattern ((tr_bound%core!marker.Copy. (TRACKED A&.) A&))
   :qid internal_verus_builtin__impl&__10_trait_impl_definition
   :skolemid skolem_internal_verus_builtin__impl&__10_trait_impl_definition
)))

;; Trait-Impl-Axiom
(assert
 (tr_bound%core!marker.Copy. $ INT)
)

;; Trait-Impl-Axiom
(assert
 (tr_bound%core!marker.Copy. $ NAT)
)

;; Trait-Impl-Axiom
(assert
 (forall ((A&. Dcr) (A& Type) (F&. Dcr) (F& Type)) (!
   (=>
    (and
     (sized A&.)
     (tr_bound%core!marker.Tuple. A&. A&)
     (tr_bound%core!ops.function.Fn. F&. F& A&. A&)
    )
    (tr_bound%core!ops.function.FnOnce. (REF F&.) F& A&. A&)
   )
   :pattern ((tr_bound%core!ops.function.FnOnce. (REF F&.) F& A&. A&))
   :qid internal_core__ops__function__impls__impl&__2_trait_impl_definition
   :skolemid skolem_internal_core__ops__function__impls__impl&__2_trait_impl_definition
)))

;; Trait-Impl-Axiom
(assert
 (forall ((A&. Dcr) (A& Type) (F&. Dcr) (F& Type)) (!
   (=>
    (and
     (sized A&.)
     (tr_bound%core!marker.Tuple. A&. A&)
     (tr_bound%core!ops.function.Fn. F&. F& A&. A&)
    )
    (tr_bound%core!ops.function.FnMut. (REF F&.) F& A&. A&)
   )
   :pattern ((tr_bound%core!ops.function.FnMut. (REF F&.) F& A&. A&))
   :qid internal_core__ops__function__impls__impl&__1_trait_impl_definition
   :skolemid skolem_internal_core__ops__function__impls__impl&__1_trait_impl_definition
)))

;; Trait-Impl-Axiom
(assert
 (forall ((A&. Dcr) (A& Type) (F&. Dcr) (F& Type)) (!
   (=>
    (and
     (sized A&.)
     (tr_bound%core!marker.Tuple. A&. A&)
     (tr_bound%core!ops.function.Fn. F&. F& A&. A&)
    )
    (tr_bound%core!ops.function.Fn. (REF F&.) F& A&. A&)
   )
   :pattern ((tr_bound%core!ops.function.Fn. (REF F&.) F& A&. A&))
   :qid internal_core__ops__function__impls__impl&__0_trait_impl_definition
   :skolemid skolem_internal_core__ops__function__impls__impl&__0_trait_impl_definition
)))

;; Trait-Impl-Axiom
(assert
 (forall ((Args&. Dcr) (Args& Type) (F&. Dcr) (F& Type) (A&. Dcr) (A& Type)) (!
   (=>
    (and
     (sized Args&.)
     (sized A&.)
     (tr_bound%core!marker.Tuple. Args&. Args&)
     (tr_bound%core!ops.function.FnOnce. F&. F& Args&. Args&)
     (tr_bound%core!alloc.Allocator. A&. A&)
    )
    (tr_bound%core!ops.function.FnOnce. (BOX A&. A& F&.) F& Args&. Args&)
   )
   :pattern ((tr_bound%core!ops.function.FnOnce. (BOX A&. A& F&.) F& Args&. Args&))
   :qid internal_alloc__boxed__impl&__31_trait_impl_definition
   :skolemid skolem_internal_alloc__boxed__impl&__31_trait_impl_definition
)))

;; Trait-Impl-Axiom
(assert
 (forall ((Args&. Dcr) (Args& Type) (F&. Dcr) (F& Type) (A&. Dcr) (A& Type)) (!
   (=>
    (and
     (sized Args&.)
     (sized A&.)
     (tr_bound%core!marker.Tuple. Args&. Args&)
     (tr_bound%core!ops.function.FnMut. F&. F& Args&. Args&)
     (tr_bound%core!alloc.Allocator. A&. A&)
    )
    (tr_bound%core!ops.function.FnMut. (BOX A&. A& F&.) F& Args&. Args&)
   )
   :pattern ((tr_bound%core!ops.function.FnMut. (BOX A&. A& F&.) F& Args&. Args&))
   :qid internal_alloc__boxed__impl&__32_trait_impl_definition
   :skolemid skolem_internal_alloc__boxed__impl&__32_trait_impl_definition
)))

;; Trait-Impl-Axiom
(assert
 (forall ((Args&. Dcr) (Args& Type) (F&. Dcr) (F& Type) (A&. Dcr) (A& Type)) (!
   (=>
    (and
     (sized Args&.)
     (sized A&.)
     (tr_bound%core!marker.Tuple. Args&. Args&)
     (tr_bound%core!ops.function.Fn. F&. F& Args&. Args&)
     (tr_bound%core!alloc.Allocator. A&. A&)
    )
    (tr_bound%core!ops.function.Fn. (BOX A&. A& F&.) F& Args&. Args&)
   )
   :pattern ((tr_bound%core!ops.function.Fn. (BOX A&. A& F&.) F& Args&. Args&))
   :qid internal_alloc__boxed__impl&__33_trait_impl_definition
   :skolemid skolem_internal_alloc__boxed__impl&__33_trait_impl_definition
)))

;; Trait-Impl-Axiom
(assert
 (forall ((A&. Dcr) (A& Type) (F&. Dcr) (F& Type)) (!
   (=>
    (and
     (sized A&.)
     (tr_bound%core!marker.Tuple. A&. A&)
     (tr_bound%core!ops.function.FnMut. F&. F& A&. A&)
    )
    (tr_bound%core!ops.function.FnMut. $ (MUTREF F&. F&) A&. A&)
   )
   :pattern ((tr_bound%core!ops.function.FnMut. $ (MUTREF F&. F&) A&. A&))
   :qid internal_core__ops__function__impls__impl&__3_trait_impl_definition
   :skolemid skolem_internal_core__ops__function__impls__impl&__3_trait_impl_definition
)))

;; Trait-Impl-Axiom
(assert
 (forall ((K&. Dcr) (K& Type) (Q&. Dcr) (Q& Type) (V&. Dcr) (V& Type) (S&. Dcr) (S& Type)
   (A&. Dcr) (A& Type)
  ) (!
   (=>
    (and
     (sized K&.)
     (sized V&.)
     (sized S&.)
     (sized A&.)
     (tr_bound%core!cmp.Eq. K&. K&)
     (tr_bound%core!hash.Hash. K&. K&)
     (tr_bound%core!borrow.Borrow. K&. K& Q&. Q&)
     (tr_bound%core!cmp.Eq. Q&. Q&)
     (tr_bound%core!hash.Hash. Q&. Q&)
     (tr_bound%core!hash.BuildHasher. S&. S&)
     (tr_bound%core!alloc.Allocator. A&. A&)
    )
    (tr_bound%core!ops.index.Index. $ (TYPE%std!collections.hash.map.HashMap. K&. K& V&.
      V& S&. S& A&. A&
     ) (REF Q&.) Q&
   ))
   :pattern ((tr_bound%core!ops.index.Index. $ (TYPE%std!collections.hash.map.HashMap.
      K&. K& V&. V& S&. S& A&. A&
     ) (REF Q&.) Q&
   ))
   :qid internal_std__collections__hash__map__impl&__10_trait_impl_definition
   :skolemid skolem_internal_std__collections__hash__map__impl&__10_trait_impl_definition
)))

;; Trait-Impl-Axiom
(assert
 (forall ((I&. Dcr) (I& Type)) (!
   (=>
    (and
     (sized I&.)
     (tr_bound%core!slice.index.SliceIndex. I&. I& $slice STRSLICE)
    )
    (tr_bound%core!ops.index.Index. $ TYPE%alloc!string.String. I&. I&)
   )
   :pattern ((tr_bound%core!ops.index.Index. $ TYPE%alloc!string.String. I&. I&))
   :qid internal_alloc__string__impl&__33_trait_impl_definition
   :skolemid skolem_internal_alloc__string__impl&__33_trait_impl_definition
)))

;; Trait-Impl-Axiom
(assert
 (forall ((T&. Dcr) (T& Type)) (!
   (=>
    (and
     (sized T&.)
     (tr_bound%core!num.nonzero.ZeroablePrimitive. T&. T&)
     (tr_bound%core!hash.Hash. T&. T&)
    )
    (tr_bound%core!hash.Hash. $ (TYPE%core!num.nonzero.NonZero. T&. T&))
   )
   :pattern ((tr_bound%core!hash.Hash. $ (TYPE%core!num.nonzero.NonZero. T&. T&)))
   :qid internal_core__num__nonzero__impl&__9_trait_impl_definition
   :skolemid skolem_internal_core__num__nonzero__impl&__9_trait_impl_definition
)))

;; Trait-Impl-Axiom
(assert
 (forall ((T&. Dcr) (T& Type)) (!
   (=>
    (and
     (sized T&.)
     (tr_bound%core!hash.Hash. T&. T&)
    )
    (tr_bound%core!hash.Hash. $ (TYPE%core!ops.range.Bound. T&. T&))
   )
   :pattern ((tr_bound%core!hash.Hash. $ (TYPE%core!ops.range.Bound. T&. T&)))
   :qid internal_core__ops__range__impl&__77_trait_impl_definition
   :skolemid skolem_internal_core__ops__range__impl&__77_trait_impl_definition
)))

;; Trait-Impl-Axiom
(assert
 (forall ((T&. Dcr) (T& Type) (N&. Dcr) (N& Type)) (!
   (=>
    (and
     (sized T&.)
     (uInv SZ (const_int N&))
     (tr_bound%core!hash.Hash. T&. T&)
    )
    (tr_bound%core!hash.Hash. $ (ARRAY T&. T& N&. N&))
   )
   :pattern ((tr_bound%core!hash.Hash. $ (ARRAY T&. T& N&. N&)))
   :qid internal_core__array__impl&__11_trait_impl_definition
   :skolemid skolem_internal_core__array__impl&__11_trait_impl_definition
)))

;; Trait-Impl-Axiom
(assert
 (tr_bound%core!hash.Hash. $ (UINT 8))
)

;; Trait-Impl-Axiom
(assert
 (tr_bound%core!hash.Hash. $ (UINT 16))
)

;; Trait-Impl-Axiom
(assert
 (tr_bound%core!hash.Hash. $ (UINT 32))
)

;; Trait-Impl-Axiom
(assert
 (tr_bound%core!hash.Hash. $ (UINT 64))
)

;; Trait-Impl-Axiom
(assert
 (tr_bound%core!hash.Hash. $ USIZE)
)

;; Trait-Impl-Axiom
(assert
 (tr_bound%core!hash.Hash. $ (SINT 8))
)

;; Trait-Impl-Axiom
(assert
 (tr_bound%core!hash.Hash. $ (SINT 16))
)

;; Trait-Impl-Axiom
(assert
 (tr_bound%core!hash.Hash. $ (SINT 32))
)

;; Trait-Impl-Axiom
(assert
 (tr_bound%core!hash.Hash. $ (SINT 64))
)

;; Trait-Impl-Axiom
(assert
 (tr_bound%core!hash.Hash. $ ISIZE)
)

;; Trait-Impl-Axiom
(assert
 (tr_bound%core!hash.Hash. $ (UINT 128))
)

;; Trait-Impl-Axiom
(assert
 (tr_bound%core!hash.Hash. $ (SINT 128))
)

;; Trait-Impl-Axiom
(assert
 (tr_bound%core!hash.Hash. $ BOOL)
)

;; Trait-Impl-Axiom
(assert
 (tr_bound%core!hash.Hash. $ CHAR)
)

;; Trait-Impl-Axiom
(assert
 (tr_bound%core!hash.Hash. $slice STRSLICE)
)

;; Trait-Impl-Axiom
(assert
 (tr_bound%core!hash.Hash. $ TYPE%tuple%0.)
)

;; Trait-Impl-Axiom
(assert
 (forall ((T&. Dcr) (T& Type) (B&. Dcr) (B& Type)) (!
   (=>
    (and
     (sized T&.)
     (sized B&.)
     (tr_bound%core!hash.Hash. T&. T&)
     (tr_bound%core!hash.Hash. B&. B&)
    )
    (tr_bound%core!hash.Hash. (DST B&.) (TYPE%tuple%2. T&. T& B&. B&))
   )
   :pattern ((tr_bound%core!hash.Hash. (DST B&.) (TYPE%tuple%2. T&. T& B&. B&)))
   :qid internal_core__hash__impls__impl&__23_trait_impl_definition
   :skolemid skolem_internal_core__hash__impls__impl&__23_trait_impl_definition
)))

;; Trait-Impl-Axiom
(assert
 (forall ((T&. Dcr) (T& Type)) (!
   (=>
    (and
     (sized T&.)
     (tr_bound%core!hash.Hash. T&. T&)
    )
    (tr_bound%core!hash.Hash. $slice (SLICE T&. T&))
   )
   :pattern ((tr_bound%core!hash.Hash. $slice (SLICE T&. T&)))
   :qid internal_core__hash__impls__impl&__4_trait_impl_definition
   :skolemid skolem_internal_core__hash__impls__impl&__4_trait_impl_definition
)))

;; Trait-Impl-Axiom
(assert
 (forall ((T&. Dcr) (T& Type)) (!
   (=>
    (tr_bound%core!hash.Hash. T&. T&)
    (tr_bound%core!hash.Hash. (REF T&.) T&)
   )
   :pattern ((tr_bound%core!hash.Hash. (REF T&.) T&))
   :qid internal_core__hash__impls__impl&__5_trait_impl_definition
   :skolemid skolem_internal_core__hash__impls__impl&__5_trait_impl_definition
)))

;; Trait-Impl-Axiom
(assert
 (forall ((T&. Dcr) (T& Type)) (!
   (=>
    (tr_bound%core!hash.Hash. T&. T&)
    (tr_bound%core!hash.Hash. $ (MUTREF T&. T&))
   )
   :pattern ((tr_bound%core!hash.Hash. $ (MUTREF T&. T&)))
   :qid internal_core__hash__impls__impl&__6_trait_impl_definition
   :skolemid skolem_internal_core__hash__impls__impl&__6_trait_impl_definition
)))

;; Trait-Impl-Axiom
(assert
 (forall ((T&. Dcr) (T& Type)) (!
   (tr_bound%core!hash.Hash. (CONST_PTR $) (PTR T&. T&))
   :pattern ((tr_bound%core!hash.Hash. (CONST_PTR $) (PTR T&. T&)))
   :qid internal_core__hash__impls__impl&__7_trait_impl_definition
   :skolemid skolem_internal_core__hash__impls__impl&__7_trait_impl_definition
)))

;; Trait-Impl-Axiom
(assert
 (forall ((T&. Dcr) (T& Type)) (!
   (tr_bound%core!hash.Hash. $ (PTR T&. T&))
   :pattern ((tr_bound%core!hash.Hash. $ (PTR T&. T&)))
   :qid internal_core__hash__impls__impl&__8_trait_impl_definition
   :skolemid skolem_internal_core__hash__impls__impl&__8_trait_impl_definition
)))

;; Trait-Impl-Axiom
(assert
 (forall ((T&. Dcr) (T& Type) (A&. Dcr) (A& Type)) (!
   (=>
    (and
     (sized A&.)
     (tr_bound%core!hash.Hash. T&. T&)
     (tr_bound%core!alloc.Allocator. A&. A&)
    )
    (tr_bound%core!hash.Hash. (BOX A&. A& T&.) T&)
   )
   :pattern ((tr_bound%core!hash.Hash. (BOX A&. A& T&.) T&))
   :qid internal_alloc__boxed__impl&__22_trait_impl_definition
   :skolemid skolem_internal_alloc__boxed__impl&__22_trait_impl_definition
)))

;; Trait-Impl-Axiom
(assert
 (forall ((T&. Dcr) (T& Type) (A&. Dcr) (A& Type)) (!
   (=>
    (and
     (sized A&.)
     (tr_bound%core!hash.Hash. T&. T&)
     (tr_bound%core!alloc.Allocator. A&. A&)
    )
    (tr_bound%core!hash.Hash. (RC A&. A& T&.) T&)
   )
   :pattern ((tr_bound%core!hash.Hash. (RC A&. A& T&.) T&))
   :qid internal_alloc__rc__impl&__49_trait_impl_definition
   :skolemid skolem_internal_alloc__rc__impl&__49_trait_impl_definition
)))

;; Trait-Impl-Axiom
(assert
 (tr_bound%core!hash.Hash. $ TYPE%alloc!string.String.)
)

;; Trait-Impl-Axiom
(assert
 (forall ((T&. Dcr) (T& Type) (A&. Dcr) (A& Type)) (!
   (=>
    (and
     (sized A&.)
     (tr_bound%core!hash.Hash. T&. T&)
     (tr_bound%core!alloc.Allocator. A&. A&)
    )
    (tr_bound%core!hash.Hash. (ARC A&. A& T&.) T&)
   )
   :pattern ((tr_bound%core!hash.Hash. (ARC A&. A& T&.) T&))
   :qid internal_alloc__sync__impl&__67_trait_impl_definition
   :skolemid skolem_internal_alloc__sync__impl&__67_trait_impl_definition
)))

;; Trait-Impl-Axiom
(assert
 (tr_bound%core!hash.Hasher. $ TYPE%std!hash.random.DefaultHasher.)
)

;; Trait-Impl-Axiom
(assert
 (forall ((H&. Dcr) (H& Type)) (!
   (=>
    (tr_bound%core!hash.Hasher. H&. H&)
    (tr_bound%core!hash.Hasher. $ (MUTREF H&. H&))
   )
   :pattern ((tr_bound%core!hash.Hasher. $ (MUTREF H&. H&)))
   :qid internal_core__hash__impl&__0_trait_impl_definition
   :skolemid skolem_internal_core__hash__impl&__0_trait_impl_definition
)))

;; Trait-Impl-Axiom
(assert
 (forall ((T&. Dcr) (T& Type) (A&. Dcr) (A& Type)) (!
   (=>
    (and
     (sized A&.)
     (tr_bound%core!hash.Hasher. T&. T&)
     (tr_bound%core!alloc.Allocator. A&. A&)
    )
    (tr_bound%core!hash.Hasher. (BOX A&. A& T&.) T&)
   )
   :pattern ((tr_bound%core!hash.Hasher. (BOX A&. A& T&.) T&))
   :qid internal_alloc__boxed__impl&__23_trait_impl_definition
   :skolemid skolem_internal_alloc__boxed__impl&__23_trait_impl_definition
)))

;; Trait-Impl-Axiom
(assert
 (tr_bound%core!hash.BuildHasher. $ TYPE%std!hash.random.RandomState.)
)

;; Trait-Impl-Axiom
(assert
 (forall ((T&. Dcr) (T& Type)) (!
   (=>
    (sized T&.)
    (tr_bound%core!slice.index.SliceIndex. (DST $) (TYPE%tuple%2. $ (TYPE%core!ops.range.Bound.
       $ USIZE
      ) $ (TYPE%core!ops.range.Bound. $ USIZE)
     ) $slice (SLICE T&. T&)
   ))
   :pattern ((tr_bound%core!slice.index.SliceIndex. (DST $) (TYPE%tuple%2. $ (TYPE%core!ops.range.Bound.
       $ USIZE
      ) $ (TYPE%core!ops.range.Bound. $ USIZE)
     ) $slice (SLICE T&. T&)
   ))
   :qid internal_core__slice__index__impl&__14_trait_impl_definition
   :skolemid skolem_internal_core__slice__index__impl&__14_trait_impl_definition
)))

;; Trait-Impl-Axiom
(assert
 (forall ((A&. Dcr) (A& Type)) (!
   (=>
    (tr_bound%core!alloc.Allocator. A&. A&)
    (tr_bound%core!alloc.Allocator. (REF A&.) A&)
   )
   :pattern ((tr_bound%core!alloc.Allocator. (REF A&.) A&))
   :qid internal_core__alloc__impl&__2_trait_impl_definition
   :skolemid skolem_internal_core__alloc__impl&__2_trait_impl_definition
)))

;; Trait-Impl-Axiom
(assert
 (forall ((A&. Dcr) (A& Type)) (!
   (=>
    (tr_bound%core!alloc.Allocator. A&. A&)
    (tr_bound%core!alloc.Allocator. $ (MUTREF A&. A&))
   )
   :pattern ((tr_bound%core!alloc.Allocator. $ (MUTREF A&. A&)))
   :qid internal_core__alloc__impl&__3_trait_impl_definition
   :skolemid skolem_internal_core__alloc__impl&__3_trait_impl_definition
)))

;; Trait-Impl-Axiom
(assert
 (forall ((T&. Dcr) (T& Type) (A&. Dcr) (A& Type)) (!
   (=>
    (and
     (sized A&.)
     (tr_bound%core!alloc.Allocator. T&. T&)
     (tr_bound%core!alloc.Allocator. A&. A&)
    )
    (tr_bound%core!alloc.Allocator. (BOX A&. A& T&.) T&)
   )
   :pattern ((tr_bound%core!alloc.Allocator. (BOX A&. A& T&.) T&))
   :qid internal_alloc__boxed__impl&__49_trait_impl_definition
   :skolemid skolem_internal_alloc__boxed__impl&__49_trait_impl_definition
)))

;; Trait-Impl-Axiom
(assert
 (forall ((T&. Dcr) (T& Type) (A&. Dcr) (A& Type)) (!
   (=>
    (and
     (sized A&.)
     (tr_bound%core!alloc.Allocator. T&. T&)
     (tr_bound%core!alloc.Allocator. A&. A&)
    )
    (tr_bound%core!alloc.Allocator. (RC A&. A& T&.) T&)
   )
   :pattern ((tr_bound%core!alloc.Allocator. (RC A&. A& T&.) T&))
   :qid internal_alloc__rc__impl&__116_trait_impl_definition
   :skolemid skolem_internal_alloc__rc__impl&__116_trait_impl_definition
)))

;; Trait-Impl-Axiom
(assert
 (forall ((T&. Dcr) (T& Type) (A&. Dcr) (A& Type)) (!
   (=>
    (and
     (sized A&.)
     (tr_bound%core!alloc.Allocator. T&. T&)
     (tr_bound%core!alloc.Allocator. A&. A&)
    )
    (tr_bound%core!alloc.Allocator. (ARC A&. A& T&.) T&)
   )
   :pattern ((tr_bound%core!alloc.Allocator. (ARC A&. A& T&.) T&))
   :qid internal_alloc__sync__impl&__118_trait_impl_definition
   :skolemid skolem_internal_alloc__sync__impl&__118_trait_impl_definition
)))

;; Trait-Impl-Axiom
(assert
 (tr_bound%verus_builtin!Integer. $ (UINT 8))
)

;; Trait-Impl-Axiom
(assert
 (tr_bound%verus_builtin!Integer. $ (UINT 16))
)

;; Trait-Impl-Axiom
(assert
 (tr_bound%verus_builtin!Integer. $ (UINT 32))
)

;; Trait-Impl-Axiom
(assert
 (tr_bound%verus_builtin!Integer. $ (UINT 64))
)

;; Trait-Impl-Axiom
(assert
 (tr_bound%verus_builtin!Integer. $ (UINT 128))
)

;; Trait-Impl-Axiom
(assert
 (tr_bound%verus_builtin!Integer. $ USIZE)
)

;; Trait-Impl-Axiom
(assert
 (tr_bound%verus_builtin!Integer. $ (SINT 8))
)

;; Trait-Impl-Axiom
(assert
 (tr_bound%verus_builtin!Integer. $ (SINT 16))
)

;; Trait-Impl-Axiom
(assert
 (tr_bound%verus_builtin!Integer. $ (SINT 32))
)

;; Trait-Impl-Axiom
(assert
 (tr_bound%verus_builtin!Integer. $ (SINT 64))
)

;; Trait-Impl-Axiom
(assert
 (tr_bound%verus_builtin!Integer. $ (SINT 128))
)

;; Trait-Impl-Axiom
(assert
 (tr_bound%verus_builtin!Integer. $ ISIZE)
)

;; Trait-Impl-Axiom
(assert
 (tr_bound%verus_builtin!Integer. $ INT)
)

;; Trait-Impl-Axiom
(assert
 (tr_bound%verus_builtin!Integer. $ NAT)
)

;; Trait-Impl-Axiom
(assert
 (tr_bound%verus_builtin!Integer. $ CHAR)
)

;; Trait-Impl-Axiom
(assert
 (forall ((Self%&. Dcr) (Self%& Type) (Idx&. Dcr) (Idx& Type)) (!
   (=>
    (and
     (tr_bound%core!ops.index.Index. Self%&. Self%& Idx&. Idx&)
     (sized Idx&.)
    )
    (tr_bound%core!ops.function.Fn. $ (FNDEF%core!ops.index.Index.index. Self%&. Self%&
      Idx&. Idx&
     ) (DST Idx&.) (TYPE%tuple%2. (REF Self%&.) Self%& Idx&. Idx&)
   ))
   :pattern ((tr_bound%core!ops.function.Fn. $ (FNDEF%core!ops.index.Index.index. Self%&.
      Self%& Idx&. Idx&
     ) (DST Idx&.) (TYPE%tuple%2. (REF Self%&.) Self%& Idx&. Idx&)
   ))
   :qid internal_core__ops__index__Index__index__impl_fndef&__Fn_trait_impl_definition
   :skolemid skolem_internal_core__ops__index__Index__index__impl_fndef&__Fn_trait_impl_definition
)))

;; Trait-Impl-Axiom
(assert
 (forall ((Self%&. Dcr) (Self%& Type) (Idx&. Dcr) (Idx& Type)) (!
   (=>
    (and
     (tr_bound%core!ops.index.Index. Self%&. Self%& Idx&. Idx&)
     (sized Idx&.)
    )
    (tr_bound%core!ops.function.FnMut. $ (FNDEF%core!ops.index.Index.index. Self%&. Self%&
      Idx&. Idx&
     ) (DST Idx&.) (TYPE%tuple%2. (REF Self%&.) Self%& Idx&. Idx&)
   ))
   :pattern ((tr_bound%core!ops.function.FnMut. $ (FNDEF%core!ops.index.Index.index. Self%&.
      Self%& Idx&. Idx&
     ) (DST Idx&.) (TYPE%tuple%2. (REF Self%&.) Self%& Idx&. Idx&)
   ))
   :qid internal_core__ops__index__Index__index__impl_fndef&__FnMut_trait_impl_definition
   :skolemid skolem_internal_core__ops__index__Index__index__impl_fndef&__FnMut_trait_impl_definition
)))

;; Trait-Impl-Axiom
(assert
 (forall ((Self%&. Dcr) (Self%& Type) (Idx&. Dcr) (Idx& Type)) (!
   (=>
    (and
     (tr_bound%core!ops.index.Index. Self%&. Self%& Idx&. Idx&)
     (sized Idx&.)
    )
    (tr_bound%core!ops.function.FnOnce. $ (FNDEF%core!ops.index.Index.index. Self%&. Self%&
      Idx&. Idx&
     ) (DST Idx&.) (TYPE%tuple%2. (REF Self%&.) Self%& Idx&. Idx&)
   ))
   :pattern ((tr_bound%core!ops.function.FnOnce. $ (FNDEF%core!ops.index.Index.index. Self%&.
      Self%& Idx&. Idx&
     ) (DST Idx&.) (TYPE%tuple%2. (REF Self%&.) Self%& Idx&. Idx&)
   ))
   :qid internal_core__ops__index__Index__index__impl_fndef&__FnOnce_trait_impl_definition
   :skolemid skolem_internal_core__ops__index__Index__index__impl_fndef&__FnOnce_trait_impl_definition
)))

;; Trait-Impl-Axiom
(assert
 (forall ((T&. Dcr) (T& Type) (I&. Dcr) (I& Type)) (!
   (=>
    (and
     (sized T&.)
     (sized I&.)
     (tr_bound%core!slice.index.SliceIndex. I&. I& $slice (SLICE T&. T&))
    )
    (tr_bound%core!ops.function.Fn. $ (FNDEF%core!ops.index.Index.index. $slice (SLICE T&.
       T&
      ) I&. I&
     ) (DST I&.) (TYPE%tuple%2. (REF $slice) (SLICE T&. T&) I&. I&)
   ))
   :pattern ((tr_bound%core!ops.function.Fn. $ (FNDEF%core!ops.index.Index.index. $slice
      (SLICE T&. T&) I&. I&
     ) (DST I&.) (TYPE%tuple%2. (REF $slice) (SLICE T&. T&) I&. I&)
   ))
   :qid internal_core__slice__index__impl&__0__index__impl_fndef&__Fn_trait_impl_definition
   :skolemid skolem_internal_core__slice__index__impl&__0__index__impl_fndef&__Fn_trait_impl_definition
)))

;; Trait-Impl-Axiom
(assert
 (forall ((T&. Dcr) (T& Type) (I&. Dcr) (I& Type)) (!
   (=>
    (and
     (sized T&.)
     (sized I&.)
     (tr_bound%core!slice.index.SliceIndex. I&. I& $slice (SLICE T&. T&))
    )
    (tr_bound%core!ops.function.FnMut. $ (FNDEF%core!ops.index.Index.index. $slice (SLICE
       T&. T&
      ) I&. I&
     ) (DST I&.) (TYPE%tuple%2. (REF $slice) (SLICE T&. T&) I&. I&)
   ))
   :pattern ((tr_bound%core!ops.function.FnMut. $ (FNDEF%core!ops.index.Index.index. $slice
      (SLICE T&. T&) I&. I&
     ) (DST I&.) (TYPE%tuple%2. (REF $slice) (SLICE T&. T&) I&. I&)
   ))
   :qid internal_core__slice__index__impl&__0__index__impl_fndef&__FnMut_trait_impl_definition
   :skolemid skolem_internal_core__slice__index__impl&__0__index__impl_fndef&__FnMut_trait_impl_definition
)))

;; Trait-Impl-Axiom
(assert
 (forall ((T&. Dcr) (T& Type) (I&. Dcr) (I& Type)) (!
   (=>
    (and
     (sized T&.)
     (sized I&.)
     (tr_bound%core!slice.index.SliceIndex. I&. I& $slice (SLICE T&. T&))
    )
    (tr_bound%core!ops.function.FnOnce. $ (FNDEF%core!ops.index.Index.index. $slice (SLICE
       T&. T&
      ) I&. I&
     ) (DST I&.) (TYPE%tuple%2. (REF $slice) (SLICE T&. T&) I&. I&)
   ))
   :pattern ((tr_bound%core!ops.function.FnOnce. $ (FNDEF%core!ops.index.Index.index. $slice
      (SLICE T&. T&) I&. I&
     ) (DST I&.) (TYPE%tuple%2. (REF $slice) (SLICE T&. T&) I&. I&)
   ))
   :qid internal_core__slice__index__impl&__0__index__impl_fndef&__FnOnce_trait_impl_definition
   :skolemid skolem_internal_core__slice__index__impl&__0__index__impl_fndef&__FnOnce_trait_impl_definition
)))

;; Trait-Impl-Axiom
(assert
 (forall ((T&. Dcr) (T& Type) (I&. Dcr) (I& Type) (N&. Dcr) (N& Type)) (!
   (=>
    (and
     (sized T&.)
     (sized I&.)
     (uInv SZ (const_int N&))
     (tr_bound%core!ops.index.Index. $slice (SLICE T&. T&) I&. I&)
    )
    (tr_bound%core!ops.function.Fn. $ (FNDEF%core!ops.index.Index.index. $ (ARRAY T&. T&
       N&. N&
      ) I&. I&
     ) (DST I&.) (TYPE%tuple%2. (REF $) (ARRAY T&. T& N&. N&) I&. I&)
   ))
   :pattern ((tr_bound%core!ops.function.Fn. $ (FNDEF%core!ops.index.Index.index. $ (ARRAY
       T&. T& N&. N&
      ) I&. I&
     ) (DST I&.) (TYPE%tuple%2. (REF $) (ARRAY T&. T& N&. N&) I&. I&)
   ))
   :qid internal_core__array__impl&__15__index__impl_fndef&__Fn_trait_impl_definition
   :skolemid skolem_internal_core__array__impl&__15__index__impl_fndef&__Fn_trait_impl_definition
)))

;; Trait-Impl-Axiom
(assert
 (forall ((T&. Dcr) (T& Type) (I&. Dcr) (I& Type) (N&. Dcr) (N& Type)) (!
   (=>
    (and
     (sized T&.)
     (sized I&.)
     (uInv SZ (const_int N&))
     (tr_bound%core!ops.index.Index. $slice (SLICE T&. T&) I&. I&)
    )
    (tr_bound%core!ops.function.FnMut. $ (FNDEF%core!ops.index.Index.index. $ (ARRAY T&.
       T& N&. N&
      ) I&. I&
     ) (DST I&.) (TYPE%tuple%2. (REF $) (ARRAY T&. T& N&. N&) I&. I&)
   ))
   :pattern ((tr_bound%core!ops.function.FnMut. $ (FNDEF%core!ops.index.Index.index. $
      (ARRAY T&. T& N&. N&) I&. I&
     ) (DST I&.) (TYPE%tuple%2. (REF $) (ARRAY T&. T& N&. N&) I&. I&)
   ))
   :qid internal_core__array__impl&__15__index__impl_fndef&__FnMut_trait_impl_definition
   :skolemid skolem_internal_core__array__impl&__15__index__impl_fndef&__FnMut_trait_impl_definition
)))

;; Trait-Impl-Axiom
(assert
 (forall ((T&. Dcr) (T& Type) (I&. Dcr) (I& Type) (N&. Dcr) (N& Type)) (!
   (=>
    (and
     (sized T&.)
     (sized I&.)
     (uInv SZ (const_int N&))
     (tr_bound%core!ops.index.Index. $slice (SLICE T&. T&) I&. I&)
    )
    (tr_bound%core!ops.function.FnOnce. $ (FNDEF%core!ops.index.Index.index. $ (ARRAY T&.
       T& N&. N&
      ) I&. I&
     ) (DST I&.) (TYPE%tuple%2. (REF $) (ARRAY T&. T& N&. N&) I&. I&)
   ))
   :pattern ((tr_bound%core!ops.function.FnOnce. $ (FNDEF%core!ops.index.Index.index. $
      (ARRAY T&. T& N&. N&) I&. I&
     ) (DST I&.) (TYPE%tuple%2. (REF $) (ARRAY T&. T& N&. N&) I&. I&)
   ))
   :qid internal_core__array__impl&__15__index__impl_fndef&__FnOnce_trait_impl_definition
   :skolemid skolem_internal_core__array__impl&__15__index__impl_fndef&__FnOnce_trait_impl_definition
)))

;; Trait-Impl-Axiom
(assert
 (forall ((Self%&. Dcr) (Self%& Type) (T&. Dcr) (T& Type)) (!
   (=>
    (tr_bound%core!slice.index.SliceIndex. Self%&. Self%& T&. T&)
    (tr_bound%core!ops.function.Fn. $ (FNDEF%core!slice.index.SliceIndex.index. Self%&.
      Self%& T&. T&
     ) (DST (REF T&.)) (TYPE%tuple%2. Self%&. Self%& (REF T&.) T&)
   ))
   :pattern ((tr_bound%core!ops.function.Fn. $ (FNDEF%core!slice.index.SliceIndex.index.
      Self%&. Self%& T&. T&
     ) (DST (REF T&.)) (TYPE%tuple%2. Self%&. Self%& (REF T&.) T&)
   ))
   :qid internal_core__slice__index__SliceIndex__index__impl_fndef&__Fn_trait_impl_definition
   :skolemid skolem_internal_core__slice__index__SliceIndex__index__impl_fndef&__Fn_trait_impl_definition
)))

;; Trait-Impl-Axiom
(assert
 (forall ((Self%&. Dcr) (Self%& Type) (T&. Dcr) (T& Type)) (!
   (=>
    (tr_bound%core!slice.index.SliceIndex. Self%&. Self%& T&. T&)
    (tr_bound%core!ops.function.FnMut. $ (FNDEF%core!slice.index.SliceIndex.index. Self%&.
      Self%& T&. T&
     ) (DST (REF T&.)) (TYPE%tuple%2. Self%&. Self%& (REF T&.) T&)
   ))
   :pattern ((tr_bound%core!ops.function.FnMut. $ (FNDEF%core!slice.index.SliceIndex.index.
      Self%&. Self%& T&. T&
     ) (DST (REF T&.)) (TYPE%tuple%2. Self%&. Self%& (REF T&.) T&)
   ))
   :qid internal_core__slice__index__SliceIndex__index__impl_fndef&__FnMut_trait_impl_definition
   :skolemid skolem_internal_core__slice__index__SliceIndex__index__impl_fndef&__FnMut_trait_impl_definition
)))

;; Trait-Impl-Axiom
(assert
 (forall ((Self%&. Dcr) (Self%& Type) (T&. Dcr) (T& Type)) (!
   (=>
    (tr_bound%core!slice.index.SliceIndex. Self%&. Self%& T&. T&)
    (tr_bound%core!ops.function.FnOnce. $ (FNDEF%core!slice.index.SliceIndex.index. Self%&.
      Self%& T&. T&
     ) (DST (REF T&.)) (TYPE%tuple%2. Self%&. Self%& (REF T&.) T&)
   ))
   :pattern ((tr_bound%core!ops.function.FnOnce. $ (FNDEF%core!slice.index.SliceIndex.index.
      Self%&. Self%& T&. T&
     ) (DST (REF T&.)) (TYPE%tuple%2. Self%&. Self%& (REF T&.) T&)
   ))
   :qid internal_core__slice__index__SliceIndex__index__impl_fndef&__FnOnce_trait_impl_definition
   :skolemid skolem_internal_core__slice__index__SliceIndex__index__impl_fndef&__FnOnce_trait_impl_definition
)))

;; Trait-Impl-Axiom
(assert
 (forall ((T&. Dcr) (T& Type) (VERUS_SPEC__A&. Dcr) (VERUS_SPEC__A& Type)) (!
   (=>
    (and
     (sized T&.)
     (sized VERUS_SPEC__A&.)
     (tr_bound%core!convert.From. VERUS_SPEC__A&. VERUS_SPEC__A& T&. T&)
    )
    (tr_bound%vstd!std_specs.convert.FromSpec. VERUS_SPEC__A&. VERUS_SPEC__A& T&. T&)
   )
   :pattern ((tr_bound%vstd!std_specs.convert.FromSpec. VERUS_SPEC__A&. VERUS_SPEC__A&
     T&. T&
   ))
   :qid internal_vstd__std_specs__convert__impl&__2_trait_impl_definition
   :skolemid skolem_internal_vstd__std_specs__convert__impl&__2_trait_impl_definition
)))

;; Function-Specs scratch_sign_b::f
(declare-fun req%scratch_sign_b!f. (std!collections.hash.map.HashMap<alloc!string.String./tuple%2<alloc!string.String./alloc!string.String.>./std!hash.random.RandomState./alloc!alloc.Global.>.
  alloc!string.String.
 ) Bool
)
(declare-const %%global_location_label%%39 Bool)
(declare-const %%global_location_label%%40 Bool)
(assert
 (forall ((map! std!collections.hash.map.HashMap<alloc!string.String./tuple%2<alloc!string.String./alloc!string.String.>./std!hash.random.RandomState./alloc!alloc.Global.>.)
   (key! alloc!string.String.)
  ) (!
   (= (req%scratch_sign_b!f. map! key!) (and
     (=>
      %%global_location_label%%39
      (vstd!iset.ISet.contains.? $ TYPE%alloc!string.String. (vstd!set.impl&%0.to_iset.?
        $ TYPE%alloc!string.String. (vstd!map.impl&%0.dom.? $ TYPE%alloc!string.String. (DST
          $
         ) (TYPE%tuple%2. $ TYPE%alloc!string.String. $ TYPE%alloc!string.String.) (vstd!view.View.view.?
          $ (TYPE%std!collections.hash.map.HashMap. $ TYPE%alloc!string.String. (DST $) (TYPE%tuple%2.
            $ TYPE%alloc!string.String. $ TYPE%alloc!string.String.
           ) $ TYPE%std!hash.random.RandomState. $ TYPE%alloc!alloc.Global.
          ) (Poly%std!collections.hash.map.HashMap<alloc!string.String./tuple%2<alloc!string.String./alloc!string.String.>./std!hash.random.RandomState./alloc!alloc.Global.>.
           map!
        )))
       ) (Poly%alloc!string.String. key!)
     ))
     (=>
      %%global_location_label%%40
      (vstd!std_specs.hash.obeys_key_model.? $ TYPE%alloc!string.String.)
   )))
   :pattern ((req%scratch_sign_b!f. map! key!))
   :qid internal_req__scratch_sign_b!f._definition
   :skolemid skolem_internal_req__scratch_sign_b!f._definition
)))

;; Function-Def scratch_sign_b::f
;; build/scratch_sign_b.rs:5:1: 5:72 (#0)
(push)
 (get-info :all-statistics)
 (declare-const %return! alloc!string.String.)
 (declare-const map! std!collections.hash.map.HashMap<alloc!string.String./tuple%2<alloc!string.String./alloc!string.String.>./std!hash.random.RandomState./alloc!alloc.Global.>.)
 (declare-const key! alloc!string.String.)
 (declare-const tmp%1 Poly)
 (declare-const tmp%2 Poly)
 (declare-const tmp%3 Bool)
 (declare-const tmp%4 Poly)
 (declare-const separator@ alloc!string.String.)
 (declare-const x@ alloc!string.String.)
 (assert
  fuel_defaults
 )
 (assert
  (vstd!iset.ISet.contains.? $ TYPE%alloc!string.String. (vstd!set.impl&%0.to_iset.?
    $ TYPE%alloc!string.String. (vstd!map.impl&%0.dom.? $ TYPE%alloc!string.String. (DST
      $
     ) (TYPE%tuple%2. $ TYPE%alloc!string.String. $ TYPE%alloc!string.String.) (vstd!view.View.view.?
      $ (TYPE%std!collections.hash.map.HashMap. $ TYPE%alloc!string.String. (DST $) (TYPE%tuple%2.
        $ TYPE%alloc!string.String. $ TYPE%alloc!string.String.
       ) $ TYPE%std!hash.random.RandomState. $ TYPE%alloc!alloc.Global.
      ) (Poly%std!collections.hash.map.HashMap<alloc!string.String./tuple%2<alloc!string.String./alloc!string.String.>./std!hash.random.RandomState./alloc!alloc.Global.>.
       map!
    )))
   ) (Poly%alloc!string.String. key!)
 ))
 (assert
  (vstd!std_specs.hash.obeys_key_model.? $ TYPE%alloc!string.String.)
 )
 ;; assertion failed
 (declare-const %%location_label%%0 Bool)
 ;; precondition not satisfied
 (declare-const %%location_label%%1 Bool)
 (assert
  (not (=>
    (fuel_bool fuel%vstd!std_specs.hash.group_hash_axioms.)
    (=>
     (= tmp%2 (Poly%strslice%. scratch_sign_b!LF.?))
     (=>
      (ens%core!convert.From.from. $ TYPE%alloc!string.String. (REF $slice) STRSLICE tmp%2
       tmp%1
      )
      (=>
       (= separator@ (%Poly%alloc!string.String. tmp%1))
       (=>
        (and
         (= (str%strslice_len (str%new_strlit 510333112106399929586928600338829275234895655093395798954197154842717264583919017601461114665985987508875106297980637686053904186951115503918490671671486))
          1
         )
         (and
          (= (str%strslice_get_char (str%new_strlit 510333112106399929586928600338829275234895655093395798954197154842717264583919017601461114665985987508875106297980637686053904186951115503918490671671486)
            0
           ) 10
        )))
        (=>
         (= tmp%3 (ext_eq false (TYPE%vstd!seq.Seq. $ CHAR) (vstd!view.View.view.? $ TYPE%alloc!string.String.
            (Poly%alloc!string.String. separator@)
           ) (vstd!view.View.view.? $slice STRSLICE (Poly%strslice%. (str%new_strlit 510333112106399929586928600338829275234895655093395798954197154842717264583919017601461114665985987508875106297980637686053904186951115503918490671671486)))
         ))
         (and
          (=>
           %%location_label%%0
           tmp%3
          )
          (=>
           tmp%3
           (=>
            %%location_label%%1
            (=>
             (not (closure_req (FNDEF%core!ops.index.Index.index. $ (TYPE%std!collections.hash.map.HashMap.
                 $ TYPE%alloc!string.String. (DST $) (TYPE%tuple%2. $ TYPE%alloc!string.String. $ TYPE%alloc!string.String.)
                 $ TYPE%std!hash.random.RandomState. $ TYPE%alloc!alloc.Global.
                ) (REF $) TYPE%alloc!string.String.
               ) (DST (REF $)) (TYPE%tuple%2. (REF $) (TYPE%std!collections.hash.map.HashMap. $ TYPE%alloc!string.String.
                 (DST $) (TYPE%tuple%2. $ TYPE%alloc!string.String. $ TYPE%alloc!string.String.) $
                 TYPE%std!hash.random.RandomState. $ TYPE%alloc!alloc.Global.
                ) (REF $) TYPE%alloc!string.String.
               ) (F fndef_singleton) (Poly%tuple%2. (tuple%2./tuple%2 (Poly%std!collections.hash.map.HashMap<alloc!string.String./tuple%2<alloc!string.String./alloc!string.String.>./std!hash.random.RandomState./alloc!alloc.Global.>.
                  map!
                 ) (Poly%alloc!string.String. key!)
             ))))
             (req%core!ops.index.Index.index. $ (TYPE%std!collections.hash.map.HashMap. $ TYPE%alloc!string.String.
               (DST $) (TYPE%tuple%2. $ TYPE%alloc!string.String. $ TYPE%alloc!string.String.) $
               TYPE%std!hash.random.RandomState. $ TYPE%alloc!alloc.Global.
              ) (REF $) TYPE%alloc!string.String. (Poly%std!collections.hash.map.HashMap<alloc!string.String./tuple%2<alloc!string.String./alloc!string.String.>./std!hash.random.RandomState./alloc!alloc.Global.>.
               map!
              ) (Poly%alloc!string.String. key!)
 )))))))))))))
 (get-info :all-statistics)
 (get-info :version)
 (set-option :rlimit 30000000)
 (check-sat)
 (set-option :rlimit 0)
 (get-info :reason-unknown)
 (get-model)
 (assert
  (not %%location_label%%0)
 )
 (get-info :all-statistics)
 (get-info :version)
 (set-option :rlimit 30000000)
 (check-sat)
 (set-option :rlimit 0)
 (get-info :reason-unknown)
 (get-model)
 (assert
  (not %%location_label%%1)
 )
(pop)

;; Function-Recommends scratch_sign_b::f
;; build/scratch_sign_b.rs:5:1: 5:72 (#0)
(push)
 (get-info :all-statistics)
 (declare-const %return! alloc!string.String.)
 (declare-const map! std!collections.hash.map.HashMap<alloc!string.String./tuple%2<alloc!string.String./alloc!string.String.>./std!hash.random.RandomState./alloc!alloc.Global.>.)
 (declare-const key! alloc!string.String.)
 (declare-const tmp%1 Poly)
 (declare-const tmp%2 Poly)
 (declare-const tmp%3 Poly)
 (declare-const separator@ alloc!string.String.)
 (declare-const x@ alloc!string.String.)
 (assert
  fuel_defaults
 )
 (assert
  (not true)
 )
 (get-info :all-statistics)
 (get-info :version)
 (set-option :rlimit 30000000)
 (check-sat)
 (set-option :rlimit 0)
 (get-info :all-statistics)
(pop)
