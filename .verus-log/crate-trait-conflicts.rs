#![feature(negative_impls)]
#![feature(with_negative_coherence)]
#![feature(box_patterns)]
#![feature(ptr_metadata)]
#![feature(never_type)]
#![feature(allocator_api)]
#![feature(unboxed_closures)]
#![feature(fn_traits)]
#![feature(tuple_trait)]
#![feature(f16)]
#![feature(f128)]
#![allow(non_camel_case_types)]
#![allow(unused_imports)]
#![allow(unused_variables)]
#![allow(unused_assignments)]
#![allow(unreachable_patterns)]
#![allow(unused_parens)]
#![allow(unused_braces)]
#![allow(dead_code)]
#![allow(unreachable_code)]
#![allow(unconditional_recursion)]
#![allow(unused_mut)]
#![allow(unused_labels)]
use std::marker::PhantomData;
use std::marker::Tuple;
use std::rc::Rc;
use std::sync::Arc;
use std::alloc::Allocator;
use std::alloc::Global;
use std::mem::ManuallyDrop;
use std::ptr::Pointee;
use std::ptr::Thin;
fn op<A, B>(a: A) -> B { panic!() }
fn static_ref<T>(t: T) -> &'static T { panic!() }
fn tracked_new<T>(t: T) -> Tracked<T> { panic!() }
fn tracked_exec_borrow<'a, T>(t: &'a T) -> &'a Tracked<T> { panic!() }
fn clone<T>(t: &T) -> T { panic!() }
fn rc_new<T>(t: T) -> std::rc::Rc<T> { panic!() }
fn arc_new<T>(t: T) -> std::sync::Arc<T> { panic!() }
fn box_new<T>(t: T) -> Box<T> { panic!() }
struct Tracked<A> { a: PhantomData<A> }
impl<A> Tracked<A> {
    pub fn get(self) -> A { panic!() }
    pub fn borrow(&self) -> &A { panic!() }
    pub fn borrow_mut(&mut self) -> &mut A { panic!() }
}
struct Ghost<A> { a: PhantomData<A> }
impl<A> Clone for Ghost<A> { fn clone(&self) -> Self { panic!() } }
impl<A> Copy for Ghost<A> { }
impl<A: Copy> Clone for Tracked<A> { fn clone(&self) -> Self { panic!() } }
impl<A: Copy> Copy for Tracked<A> { }
#[derive(Clone, Copy)] struct int;
#[derive(Clone, Copy)] struct nat;
#[derive(Clone, Copy)] struct real;
struct FnSpec<Args, Output> { x: PhantomData<(Args, Output)> }
struct InvariantBlockGuard;
fn open_atomic_invariant_begin<'a, X, V>(_inv: &'a X) -> (InvariantBlockGuard, V) { panic!(); }
fn open_local_invariant_begin<'a, X, V>(_inv: &'a X) -> (InvariantBlockGuard, V) { panic!(); }
fn open_invariant_end<V>(_guard: InvariantBlockGuard, _v: V) { panic!() }
fn index<'a, V, Idx, Output>(v: &'a V, index: Idx) -> &'a Output { panic!() }
trait IndexSet{
fn index_set<Idx, V>(&mut self, index: Idx, val: V) { panic!() }
}
impl<A:?Sized> IndexSet for A {}
struct C<const N: usize, A: ?Sized>(Box<A>);
struct Arr<A: ?Sized, const N: usize>(Box<A>);
struct Dyn<const N: usize, A>(Box<A>, [bool]);
fn use_type_invariant<A>(a: A) -> A { a }

struct FnProof<'a, P, M, N, A, O>(PhantomData<P>, PhantomData<M>, PhantomData<N>, PhantomData<&'a fn(A) -> O>);
struct FOpts<const B: u8, C, const D: u8, const E: u8, const G: u8>(PhantomData<C>);
trait ProofFnOnce {}
trait ProofFnMut: ProofFnOnce {}
trait ProofFn: ProofFnMut {}
struct ProofFnConfirm;
trait ConfirmCopy<const D: u8, F> {}
trait ConfirmUsage<A, O, const B: u8, F> {}
impl<const B: u8, C, const E: u8, const G: u8> Clone for FOpts<B, C, 4, E, G> { fn clone(&self) -> Self { panic!() } }
impl<const B: u8, C, const E: u8, const G: u8> Copy for FOpts<B, C, 4, E, G> {}
impl<const B: u8, C, const D: u8, const E: u8, const G: u8> ProofFnOnce for FOpts<B, C, D, E, G> {}
impl<C, const D: u8, const E: u8, const G: u8> ProofFnMut for FOpts<2, C, D, E, G> {}
impl<C, const D: u8, const E: u8, const G: u8> ProofFnMut for FOpts<3, C, D, E, G> {}
impl<C, const D: u8, const E: u8, const G: u8> ProofFn for FOpts<3, C, D, E, G> {}
impl<'a, P: Copy, M, N, A, O> Clone for FnProof<'a, P, M, N, A, O> { fn clone(&self) -> Self { panic!() } }
impl<'a, P: Copy, M, N, A, O> Copy for FnProof<'a, P, M, N, A, O> {}
impl<'a, P: ProofFnOnce, M, N, A: Tuple, O> FnOnce<A> for FnProof<'a, P, M, N, A, O> {
    type Output = O;
    extern "rust-call" fn call_once(self, _: A) -> <Self as FnOnce<A>>::Output { panic!() }
}
impl<'a, P: ProofFnMut, M, N, A: Tuple, O> FnMut<A> for FnProof<'a, P, M, N, A, O> {
    extern "rust-call" fn call_mut(&mut self, _: A) -> <Self as FnOnce<A>>::Output { panic!() }
}
impl<'a, P: ProofFn, M, N, A: Tuple, O> Fn<A> for FnProof<'a, P, M, N, A, O> {
    extern "rust-call" fn call(&self, _: A) -> <Self as FnOnce<A>>::Output { panic!() }
}
impl<F: Copy> ConfirmCopy<4, F> for ProofFnConfirm {}
impl<F> ConfirmCopy<0, F> for ProofFnConfirm {}
impl<A: Tuple, O, F: FnOnce<A, Output = O>> ConfirmUsage<A, O, 1, F> for ProofFnConfirm {}
impl<A: Tuple, O, F: FnMut<A, Output = O>> ConfirmUsage<A, O, 2, F> for ProofFnConfirm {}
impl<A: Tuple, O, F: Fn<A, Output = O>> ConfirmUsage<A, O, 3, F> for ProofFnConfirm {}
pub fn closure_to_fn_proof<'a, const B: u8, const D: u8, const E: u8, const G: u8, M, N, A, O, F: 'a>(_f: F) -> FnProof<'a, FOpts<B, (), D, E, G>, M, N, A, O>
where ProofFnConfirm: ConfirmUsage<A, O, B, F>, ProofFnConfirm: ConfirmCopy<D, F>, M: Tuple, A: Tuple,
{ panic!() }

fn main() {}



trait T9_View {
    type A10_V : ;
}

trait T11_Clone where Self: Sized,  {
}

trait T12_Copy where Self: T11_Clone,  {
}

trait T13_From<A2_T, > where Self: Sized,  {
}

trait T14_FromSpec<A2_T, > where Self: Sized, Self: T13_From<A2_T, >,  {
}

trait T15_Tuple {
}

trait T17_FnOnce<A16_Args, > where A16_Args: Tuple,  {
    type A18_Output : ;
}

trait T19_FnMut<A16_Args, > where Self: T17_FnOnce<A16_Args, >, A16_Args: Tuple,  {
}

trait T20_Fn<A16_Args, > where Self: T19_FnMut<A16_Args, >, A16_Args: Tuple,  {
}

trait T21_Allocator {
}

trait T3_ZeroablePrimitive where Self: Sized, Self: T12_Copy,  {
}

trait T22_ZeroablePrimitiveSpec where Self: Sized, Self: T12_Copy, Self: T3_ZeroablePrimitive,  {
}

struct D1_Global(
);

struct D4_NonZero<A2_T, >(
    Box<A2_T, >,
) where A2_T: T3_ZeroablePrimitive, ;

struct D6_SeqInner<A5_A, >(
    Box<A5_A, >,
) where ;

struct D7_Seq<A5_A, >(
    Box<A5_A, >,
    D6_SeqInner<A5_A, >,
) where ;

struct D8_String(
);

impl T9_View for str {
    type A10_V = D7_Seq<char, >;
}

impl T9_View for D8_String {
    type A10_V = D7_Seq<char, >;
}

impl<A5_A, > T9_View for C<2, (Box<A5_A, >, ), > where A5_A: T9_View, A5_A : ?Sized,  {
    type A10_V = <A5_A as T9_View>::A10_V;
}

impl<A5_A, > T9_View for C<4, (Box<A5_A, >, Box<D1_Global, >, ), > where A5_A: T9_View, A5_A : ?Sized,  {
    type A10_V = <A5_A as T9_View>::A10_V;
}

impl<A5_A, > T9_View for C<5, (Box<A5_A, >, Box<D1_Global, >, ), > where A5_A: T9_View,  {
    type A10_V = <A5_A as T9_View>::A10_V;
}

impl<A5_A, > T9_View for C<6, (Box<A5_A, >, Box<D1_Global, >, ), > where A5_A: T9_View,  {
    type A10_V = <A5_A as T9_View>::A10_V;
}

impl T9_View for () {
    type A10_V = ();
}

impl T9_View for bool {
    type A10_V = bool;
}

impl T9_View for u8 {
    type A10_V = u8;
}

impl T9_View for u16 {
    type A10_V = u16;
}

impl T9_View for u32 {
    type A10_V = u32;
}

impl T9_View for u64 {
    type A10_V = u64;
}

impl T9_View for u128 {
    type A10_V = u128;
}

impl T9_View for usize {
    type A10_V = usize;
}

impl T9_View for i8 {
    type A10_V = i8;
}

impl T9_View for i16 {
    type A10_V = i16;
}

impl T9_View for i32 {
    type A10_V = i32;
}

impl T9_View for i64 {
    type A10_V = i64;
}

impl T9_View for i128 {
    type A10_V = i128;
}

impl T9_View for isize {
    type A10_V = isize;
}

impl T9_View for char {
    type A10_V = char;
}

impl T14_FromSpec<u8, > for u16 {
}

impl T14_FromSpec<u8, > for u32 {
}

impl T14_FromSpec<u8, > for u64 {
}

impl T14_FromSpec<u8, > for usize {
}

impl T14_FromSpec<u8, > for u128 {
}

impl T14_FromSpec<u16, > for u32 {
}

impl T14_FromSpec<u16, > for u64 {
}

impl T14_FromSpec<u16, > for usize {
}

impl T14_FromSpec<u16, > for u128 {
}

impl T14_FromSpec<u32, > for u64 {
}

impl T14_FromSpec<u32, > for u128 {
}

impl T14_FromSpec<u64, > for u128 {
}

impl T14_FromSpec<i8, > for i16 {
}

impl T14_FromSpec<i8, > for i32 {
}

impl T14_FromSpec<i8, > for i64 {
}

impl T14_FromSpec<i8, > for isize {
}

impl T14_FromSpec<i8, > for i128 {
}

impl T14_FromSpec<i16, > for i32 {
}

impl T14_FromSpec<i16, > for i64 {
}

impl T14_FromSpec<i16, > for isize {
}

impl T14_FromSpec<i16, > for i128 {
}

impl T14_FromSpec<i32, > for i64 {
}

impl T14_FromSpec<i32, > for i128 {
}

impl T14_FromSpec<i64, > for i128 {
}

impl T22_ZeroablePrimitiveSpec for char {
}

impl T22_ZeroablePrimitiveSpec for u8 {
}

impl T22_ZeroablePrimitiveSpec for u16 {
}

impl T22_ZeroablePrimitiveSpec for u32 {
}

impl T22_ZeroablePrimitiveSpec for u64 {
}

impl T22_ZeroablePrimitiveSpec for usize {
}

impl T22_ZeroablePrimitiveSpec for i8 {
}

impl T22_ZeroablePrimitiveSpec for i16 {
}

impl T22_ZeroablePrimitiveSpec for i32 {
}

impl T22_ZeroablePrimitiveSpec for i64 {
}

impl T22_ZeroablePrimitiveSpec for isize {
}

impl<A2_T, > T9_View for D4_NonZero<A2_T, > where A2_T: T3_ZeroablePrimitive,  {
    type A10_V = A2_T;
}

impl<A2_T, > T14_FromSpec<D4_NonZero<A2_T, >, > for A2_T where A2_T: T3_ZeroablePrimitive,  {
}

impl T3_ZeroablePrimitive for u8 {
}

impl T3_ZeroablePrimitive for u16 {
}

impl T3_ZeroablePrimitive for u32 {
}

impl T3_ZeroablePrimitive for u64 {
}

impl T3_ZeroablePrimitive for u128 {
}

impl T3_ZeroablePrimitive for usize {
}

impl T3_ZeroablePrimitive for i8 {
}

impl T3_ZeroablePrimitive for i16 {
}

impl T3_ZeroablePrimitive for i32 {
}

impl T3_ZeroablePrimitive for i64 {
}

impl T3_ZeroablePrimitive for i128 {
}

impl T3_ZeroablePrimitive for isize {
}

impl T3_ZeroablePrimitive for char {
}

impl<A2_T, A5_A, > T11_Clone for C<4, (Box<A2_T, >, Box<A5_A, >, ), > where A2_T: T11_Clone, A5_A: T21_Allocator, A5_A: T11_Clone,  {
}

impl T11_Clone for C<4, (Box<str, >, Box<D1_Global, >, ), > {
}

impl<A2_T, > T11_Clone for D4_NonZero<A2_T, > where A2_T: T3_ZeroablePrimitive,  {
}

impl T11_Clone for usize {
}

impl T11_Clone for u8 {
}

impl T11_Clone for u16 {
}

impl T11_Clone for u32 {
}

impl T11_Clone for u64 {
}

impl T11_Clone for u128 {
}

impl T11_Clone for isize {
}

impl T11_Clone for i8 {
}

impl T11_Clone for i16 {
}

impl T11_Clone for i32 {
}

impl T11_Clone for i64 {
}

impl T11_Clone for i128 {
}

impl T11_Clone for bool {
}

impl T11_Clone for char {
}

impl<A2_T, > T11_Clone for C<2, (Box<A2_T, >, ), > where A2_T : ?Sized,  {
}

impl T11_Clone for D1_Global {
}

impl<A2_T, A5_A, > T11_Clone for C<5, (Box<A2_T, >, Box<A5_A, >, ), > where A5_A: T21_Allocator, A5_A: T11_Clone, A2_T : ?Sized,  {
}

impl T11_Clone for D8_String {
}

impl<A2_T, A5_A, > T11_Clone for C<6, (Box<A2_T, >, Box<A5_A, >, ), > where A5_A: T21_Allocator, A5_A: T11_Clone, A2_T : ?Sized,  {
}

impl<A5_A, > T11_Clone for C<7, (Box<A5_A, >, ), > where  {
}

impl<A5_A, > T11_Clone for C<8, (Box<A5_A, >, ), > where A5_A: T12_Copy,  {
}

impl T11_Clone for int {
}

impl T11_Clone for nat {
}

impl<A2_T, > T13_From<D4_NonZero<A2_T, >, > for A2_T where A2_T: T3_ZeroablePrimitive,  {
}

impl<A2_T, > T13_From<A2_T, > for A2_T where  {
}

impl<A2_T, > T13_From<A2_T, > for C<4, (Box<A2_T, >, Box<D1_Global, >, ), > where  {
}

impl T13_From<C<2, (Box<str, >, ), >, > for C<4, (Box<str, >, Box<D1_Global, >, ), > {
}

impl T13_From<C<3, (Box<str, >, ), >, > for C<4, (Box<str, >, Box<D1_Global, >, ), > {
}

impl T13_From<D8_String, > for C<4, (Box<str, >, Box<D1_Global, >, ), > {
}

impl<A2_T, > T13_From<A2_T, > for C<6, (Box<A2_T, >, Box<D1_Global, >, ), > where  {
}

impl T13_From<C<2, (Box<str, >, ), >, > for C<6, (Box<str, >, Box<D1_Global, >, ), > {
}

impl T13_From<C<3, (Box<str, >, ), >, > for C<6, (Box<str, >, Box<D1_Global, >, ), > {
}

impl T13_From<D8_String, > for C<6, (Box<str, >, Box<D1_Global, >, ), > {
}

impl<A2_T, A5_A, > T13_From<C<4, (Box<A2_T, >, Box<A5_A, >, ), >, > for C<6, (Box<A2_T, >, Box<A5_A, >, ), > where A5_A: T21_Allocator, A2_T : ?Sized,  {
}

impl<A2_T, > T13_From<A2_T, > for C<5, (Box<A2_T, >, Box<D1_Global, >, ), > where  {
}

impl T13_From<C<2, (Box<str, >, ), >, > for C<5, (Box<str, >, Box<D1_Global, >, ), > {
}

impl T13_From<C<3, (Box<str, >, ), >, > for C<5, (Box<str, >, Box<D1_Global, >, ), > {
}

impl T13_From<D8_String, > for C<5, (Box<str, >, Box<D1_Global, >, ), > {
}

impl<A2_T, A5_A, > T13_From<C<4, (Box<A2_T, >, Box<A5_A, >, ), >, > for C<5, (Box<A2_T, >, Box<A5_A, >, ), > where A5_A: T21_Allocator, A2_T : ?Sized,  {
}

impl T13_From<D4_NonZero<u8, >, > for D4_NonZero<u16, > {
}

impl T13_From<D4_NonZero<u8, >, > for D4_NonZero<u32, > {
}

impl T13_From<D4_NonZero<u8, >, > for D4_NonZero<u64, > {
}

impl T13_From<D4_NonZero<u8, >, > for D4_NonZero<u128, > {
}

impl T13_From<D4_NonZero<u8, >, > for D4_NonZero<usize, > {
}

impl T13_From<D4_NonZero<u16, >, > for D4_NonZero<u32, > {
}

impl T13_From<D4_NonZero<u16, >, > for D4_NonZero<u64, > {
}

impl T13_From<D4_NonZero<u16, >, > for D4_NonZero<u128, > {
}

impl T13_From<D4_NonZero<u16, >, > for D4_NonZero<usize, > {
}

impl T13_From<D4_NonZero<u32, >, > for D4_NonZero<u64, > {
}

impl T13_From<D4_NonZero<u32, >, > for D4_NonZero<u128, > {
}

impl T13_From<D4_NonZero<u64, >, > for D4_NonZero<u128, > {
}

impl T13_From<D4_NonZero<i8, >, > for D4_NonZero<i16, > {
}

impl T13_From<D4_NonZero<i8, >, > for D4_NonZero<i32, > {
}

impl T13_From<D4_NonZero<i8, >, > for D4_NonZero<i64, > {
}

impl T13_From<D4_NonZero<i8, >, > for D4_NonZero<i128, > {
}

impl T13_From<D4_NonZero<i8, >, > for D4_NonZero<isize, > {
}

impl T13_From<D4_NonZero<i16, >, > for D4_NonZero<i32, > {
}

impl T13_From<D4_NonZero<i16, >, > for D4_NonZero<i64, > {
}

impl T13_From<D4_NonZero<i16, >, > for D4_NonZero<i128, > {
}

impl T13_From<D4_NonZero<i16, >, > for D4_NonZero<isize, > {
}

impl T13_From<D4_NonZero<i32, >, > for D4_NonZero<i64, > {
}

impl T13_From<D4_NonZero<i32, >, > for D4_NonZero<i128, > {
}

impl T13_From<D4_NonZero<i64, >, > for D4_NonZero<i128, > {
}

impl T13_From<D4_NonZero<u8, >, > for D4_NonZero<i16, > {
}

impl T13_From<D4_NonZero<u8, >, > for D4_NonZero<i32, > {
}

impl T13_From<D4_NonZero<u8, >, > for D4_NonZero<i64, > {
}

impl T13_From<D4_NonZero<u8, >, > for D4_NonZero<i128, > {
}

impl T13_From<D4_NonZero<u8, >, > for D4_NonZero<isize, > {
}

impl T13_From<D4_NonZero<u16, >, > for D4_NonZero<i32, > {
}

impl T13_From<D4_NonZero<u16, >, > for D4_NonZero<i64, > {
}

impl T13_From<D4_NonZero<u16, >, > for D4_NonZero<i128, > {
}

impl T13_From<D4_NonZero<u32, >, > for D4_NonZero<i64, > {
}

impl T13_From<D4_NonZero<u32, >, > for D4_NonZero<i128, > {
}

impl T13_From<D4_NonZero<u64, >, > for D4_NonZero<i128, > {
}

impl T13_From<bool, > for usize {
}

impl T13_From<u8, > for usize {
}

impl T13_From<u16, > for usize {
}

impl T13_From<bool, > for u8 {
}

impl T13_From<bool, > for u16 {
}

impl T13_From<u8, > for u16 {
}

impl T13_From<bool, > for u32 {
}

impl T13_From<u8, > for u32 {
}

impl T13_From<u16, > for u32 {
}

impl T13_From<char, > for u32 {
}

impl T13_From<bool, > for u64 {
}

impl T13_From<u8, > for u64 {
}

impl T13_From<u16, > for u64 {
}

impl T13_From<u32, > for u64 {
}

impl T13_From<char, > for u64 {
}

impl T13_From<bool, > for u128 {
}

impl T13_From<u8, > for u128 {
}

impl T13_From<u16, > for u128 {
}

impl T13_From<u32, > for u128 {
}

impl T13_From<u64, > for u128 {
}

impl T13_From<char, > for u128 {
}

impl T13_From<bool, > for i8 {
}

impl T13_From<bool, > for i16 {
}

impl T13_From<i8, > for i16 {
}

impl T13_From<u8, > for i16 {
}

impl T13_From<bool, > for i32 {
}

impl T13_From<i8, > for i32 {
}

impl T13_From<i16, > for i32 {
}

impl T13_From<u8, > for i32 {
}

impl T13_From<u16, > for i32 {
}

impl T13_From<bool, > for i64 {
}

impl T13_From<i8, > for i64 {
}

impl T13_From<i16, > for i64 {
}

impl T13_From<i32, > for i64 {
}

impl T13_From<u8, > for i64 {
}

impl T13_From<u16, > for i64 {
}

impl T13_From<u32, > for i64 {
}

impl T13_From<bool, > for i128 {
}

impl T13_From<i8, > for i128 {
}

impl T13_From<i16, > for i128 {
}

impl T13_From<i32, > for i128 {
}

impl T13_From<i64, > for i128 {
}

impl T13_From<u8, > for i128 {
}

impl T13_From<u16, > for i128 {
}

impl T13_From<u32, > for i128 {
}

impl T13_From<u64, > for i128 {
}

impl T13_From<bool, > for isize {
}

impl T13_From<i8, > for isize {
}

impl T13_From<u8, > for isize {
}

impl T13_From<i16, > for isize {
}

impl T13_From<u8, > for char {
}

impl T13_From<C<2, (Box<str, >, ), >, > for D8_String {
}

impl T13_From<C<3, (Box<str, >, ), >, > for D8_String {
}

impl T13_From<C<2, (Box<D8_String, >, ), >, > for D8_String {
}

impl T13_From<C<4, (Box<str, >, Box<D1_Global, >, ), >, > for D8_String {
}

impl T13_From<char, > for D8_String {
}

impl<A2_T, > T12_Copy for D4_NonZero<A2_T, > where A2_T: T3_ZeroablePrimitive,  {
}

impl T12_Copy for usize {
}

impl T12_Copy for u8 {
}

impl T12_Copy for u16 {
}

impl T12_Copy for u32 {
}

impl T12_Copy for u64 {
}

impl T12_Copy for u128 {
}

impl T12_Copy for isize {
}

impl T12_Copy for i8 {
}

impl T12_Copy for i16 {
}

impl T12_Copy for i32 {
}

impl T12_Copy for i64 {
}

impl T12_Copy for i128 {
}

impl T12_Copy for bool {
}

impl T12_Copy for char {
}

impl<A2_T, > T12_Copy for C<2, (Box<A2_T, >, ), > where A2_T : ?Sized,  {
}

impl T12_Copy for D1_Global {
}

impl<A5_A, > T12_Copy for C<7, (Box<A5_A, >, ), > where  {
}

impl<A5_A, > T12_Copy for C<8, (Box<A5_A, >, ), > where A5_A: T12_Copy,  {
}

impl T12_Copy for int {
}

impl T12_Copy for nat {
}

impl<A5_A, A23_F, > T20_Fn<A5_A, > for C<2, (Box<A23_F, >, ), > where A5_A: Tuple, A23_F: T20_Fn<A5_A, >, A23_F : ?Sized,  {
}

impl<A16_Args, A23_F, A5_A, > T20_Fn<A16_Args, > for C<4, (Box<A23_F, >, Box<A5_A, >, ), > where A16_Args: Tuple, A23_F: T20_Fn<A16_Args, >, A5_A: T21_Allocator, A23_F : ?Sized,  {
}

impl<A5_A, A23_F, > T19_FnMut<A5_A, > for C<2, (Box<A23_F, >, ), > where A5_A: Tuple, A23_F: T20_Fn<A5_A, >, A23_F : ?Sized,  {
}

impl<A5_A, A23_F, > T19_FnMut<A5_A, > for C<3, (Box<A23_F, >, ), > where A5_A: Tuple, A23_F: T19_FnMut<A5_A, >, A23_F : ?Sized,  {
}

impl<A16_Args, A23_F, A5_A, > T19_FnMut<A16_Args, > for C<4, (Box<A23_F, >, Box<A5_A, >, ), > where A16_Args: Tuple, A23_F: T19_FnMut<A16_Args, >, A5_A: T21_Allocator, A23_F : ?Sized,  {
}

impl<A5_A, A23_F, > T17_FnOnce<A5_A, > for C<2, (Box<A23_F, >, ), > where A5_A: Tuple, A23_F: T20_Fn<A5_A, >, A23_F : ?Sized,  {
    type A18_Output = <A23_F as T17_FnOnce<A5_A, >>::A18_Output;
}

impl<A5_A, A23_F, > T17_FnOnce<A5_A, > for C<3, (Box<A23_F, >, ), > where A5_A: Tuple, A23_F: T19_FnMut<A5_A, >, A23_F : ?Sized,  {
    type A18_Output = <A23_F as T17_FnOnce<A5_A, >>::A18_Output;
}

impl<A16_Args, A23_F, A5_A, > T17_FnOnce<A16_Args, > for C<4, (Box<A23_F, >, Box<A5_A, >, ), > where A16_Args: Tuple, A23_F: T17_FnOnce<A16_Args, >, A5_A: T21_Allocator, A23_F : ?Sized,  {
    type A18_Output = <A23_F as T17_FnOnce<A16_Args, >>::A18_Output;
}

impl<A5_A, > T21_Allocator for C<2, (Box<A5_A, >, ), > where A5_A: T21_Allocator, A5_A : ?Sized,  {
}

impl<A5_A, > T21_Allocator for C<3, (Box<A5_A, >, ), > where A5_A: T21_Allocator, A5_A : ?Sized,  {
}

impl T21_Allocator for D1_Global {
}

impl<A2_T, A5_A, > T21_Allocator for C<4, (Box<A2_T, >, Box<A5_A, >, ), > where A2_T: T21_Allocator, A5_A: T21_Allocator, A2_T : ?Sized,  {
}

impl<A2_T, A5_A, > T21_Allocator for C<5, (Box<A2_T, >, Box<A5_A, >, ), > where A2_T: T21_Allocator, A5_A: T21_Allocator, A2_T : ?Sized,  {
}

impl<A2_T, A5_A, > T21_Allocator for C<6, (Box<A2_T, >, Box<A5_A, >, ), > where A2_T: T21_Allocator, A5_A: T21_Allocator, A2_T : ?Sized,  {
}
