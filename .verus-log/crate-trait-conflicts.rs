#![feature(negative_impls)]
#![feature(with_negative_coherence)]
#![feature(box_patterns)]
#![feature(ptr_metadata)]
#![feature(never_type)]
#![feature(allocator_api)]
#![feature(unboxed_closures)]
#![feature(fn_traits)]
#![feature(tuple_trait)]
#![feature(f16)]
#![feature(f128)]
#![allow(non_camel_case_types)]
#![allow(unused_imports)]
#![allow(unused_variables)]
#![allow(unused_assignments)]
#![allow(unreachable_patterns)]
#![allow(unused_parens)]
#![allow(unused_braces)]
#![allow(dead_code)]
#![allow(unreachable_code)]
#![allow(unconditional_recursion)]
#![allow(unused_mut)]
#![allow(unused_labels)]
use std::marker::PhantomData;
use std::marker::Tuple;
use std::rc::Rc;
use std::sync::Arc;
use std::alloc::Allocator;
use std::alloc::Global;
use std::mem::ManuallyDrop;
use std::ptr::Pointee;
use std::ptr::Thin;
fn op<A, B>(a: A) -> B { panic!() }
fn static_ref<T>(t: T) -> &'static T { panic!() }
fn tracked_new<T>(t: T) -> Tracked<T> { panic!() }
fn tracked_exec_borrow<'a, T>(t: &'a T) -> &'a Tracked<T> { panic!() }
fn clone<T>(t: &T) -> T { panic!() }
fn rc_new<T>(t: T) -> std::rc::Rc<T> { panic!() }
fn arc_new<T>(t: T) -> std::sync::Arc<T> { panic!() }
fn box_new<T>(t: T) -> Box<T> { panic!() }
struct Tracked<A> { a: PhantomData<A> }
impl<A> Tracked<A> {
    pub fn get(self) -> A { panic!() }
    pub fn borrow(&self) -> &A { panic!() }
    pub fn borrow_mut(&mut self) -> &mut A { panic!() }
}
struct Ghost<A> { a: PhantomData<A> }
impl<A> Clone for Ghost<A> { fn clone(&self) -> Self { panic!() } }
impl<A> Copy for Ghost<A> { }
impl<A: Copy> Clone for Tracked<A> { fn clone(&self) -> Self { panic!() } }
impl<A: Copy> Copy for Tracked<A> { }
#[derive(Clone, Copy)] struct int;
#[derive(Clone, Copy)] struct nat;
#[derive(Clone, Copy)] struct real;
struct FnSpec<Args, Output> { x: PhantomData<(Args, Output)> }
struct InvariantBlockGuard;
fn open_atomic_invariant_begin<'a, X, V>(_inv: &'a X) -> (InvariantBlockGuard, V) { panic!(); }
fn open_local_invariant_begin<'a, X, V>(_inv: &'a X) -> (InvariantBlockGuard, V) { panic!(); }
fn open_invariant_end<V>(_guard: InvariantBlockGuard, _v: V) { panic!() }
fn index<'a, V, Idx, Output>(v: &'a V, index: Idx) -> &'a Output { panic!() }
trait IndexSet{
fn index_set<Idx, V>(&mut self, index: Idx, val: V) { panic!() }
}
impl<A:?Sized> IndexSet for A {}
struct C<const N: usize, A: ?Sized>(Box<A>);
struct Arr<A: ?Sized, const N: usize>(Box<A>);
struct Dyn<const N: usize, A>(Box<A>, [bool]);
fn use_type_invariant<A>(a: A) -> A { a }

struct FnProof<'a, P, M, N, A, O>(PhantomData<P>, PhantomData<M>, PhantomData<N>, PhantomData<&'a fn(A) -> O>);
struct FOpts<const B: u8, C, const D: u8, const E: u8, const G: u8>(PhantomData<C>);
trait ProofFnOnce {}
trait ProofFnMut: ProofFnOnce {}
trait ProofFn: ProofFnMut {}
struct ProofFnConfirm;
trait ConfirmCopy<const D: u8, F> {}
trait ConfirmUsage<A, O, const B: u8, F> {}
impl<const B: u8, C, const E: u8, const G: u8> Clone for FOpts<B, C, 4, E, G> { fn clone(&self) -> Self { panic!() } }
impl<const B: u8, C, const E: u8, const G: u8> Copy for FOpts<B, C, 4, E, G> {}
impl<const B: u8, C, const D: u8, const E: u8, const G: u8> ProofFnOnce for FOpts<B, C, D, E, G> {}
impl<C, const D: u8, const E: u8, const G: u8> ProofFnMut for FOpts<2, C, D, E, G> {}
impl<C, const D: u8, const E: u8, const G: u8> ProofFnMut for FOpts<3, C, D, E, G> {}
impl<C, const D: u8, const E: u8, const G: u8> ProofFn for FOpts<3, C, D, E, G> {}
impl<'a, P: Copy, M, N, A, O> Clone for FnProof<'a, P, M, N, A, O> { fn clone(&self) -> Self { panic!() } }
impl<'a, P: Copy, M, N, A, O> Copy for FnProof<'a, P, M, N, A, O> {}
impl<'a, P: ProofFnOnce, M, N, A: Tuple, O> FnOnce<A> for FnProof<'a, P, M, N, A, O> {
    type Output = O;
    extern "rust-call" fn call_once(self, _: A) -> <Self as FnOnce<A>>::Output { panic!() }
}
impl<'a, P: ProofFnMut, M, N, A: Tuple, O> FnMut<A> for FnProof<'a, P, M, N, A, O> {
    extern "rust-call" fn call_mut(&mut self, _: A) -> <Self as FnOnce<A>>::Output { panic!() }
}
impl<'a, P: ProofFn, M, N, A: Tuple, O> Fn<A> for FnProof<'a, P, M, N, A, O> {
    extern "rust-call" fn call(&self, _: A) -> <Self as FnOnce<A>>::Output { panic!() }
}
impl<F: Copy> ConfirmCopy<4, F> for ProofFnConfirm {}
impl<F> ConfirmCopy<0, F> for ProofFnConfirm {}
impl<A: Tuple, O, F: FnOnce<A, Output = O>> ConfirmUsage<A, O, 1, F> for ProofFnConfirm {}
impl<A: Tuple, O, F: FnMut<A, Output = O>> ConfirmUsage<A, O, 2, F> for ProofFnConfirm {}
impl<A: Tuple, O, F: Fn<A, Output = O>> ConfirmUsage<A, O, 3, F> for ProofFnConfirm {}
pub fn closure_to_fn_proof<'a, const B: u8, const D: u8, const E: u8, const G: u8, M, N, A, O, F: 'a>(_f: F) -> FnProof<'a, FOpts<B, (), D, E, G>, M, N, A, O>
where ProofFnConfirm: ConfirmUsage<A, O, B, F>, ProofFnConfirm: ConfirmCopy<D, F>, M: Tuple, A: Tuple,
{ panic!() }

fn main() {}



trait T25_ArrayAdditionalSpecFns<A10_T, > where Self: T24_View, Self: T24_View<A16_V = D21_Seq<A10_T, >>,  {
}

trait T26_SliceAdditionalSpecFns<A10_T, > where Self: T24_View, Self: T24_View<A16_V = D21_Seq<A10_T, >>,  {
}

trait T27_SliceIndex<A10_T, > where A10_T : ?Sized,  {
    type A28_Output : ?Sized;
}

trait T29_SliceIndexSpec<A10_T, > where Self: T27_SliceIndex<A10_T, >, A10_T : ?Sized,  {
}

trait T30_StringSliceAdditionalSpecFns {
}

trait T24_View {
    type A16_V : ;
}

trait T31_Clone where Self: Sized,  {
}

trait T32_Copy where Self: T31_Clone,  {
}

trait T34_PartialEq<A33_Rhs, > where A33_Rhs : ?Sized,  {
}

trait T35_Eq where Self: T34_PartialEq<Self, >,  {
}

trait T36_From<A10_T, > where Self: Sized,  {
}

trait T37_FromSpec<A10_T, > where Self: Sized, Self: T36_From<A10_T, >,  {
}

trait T38_Tuple {
}

trait T40_FnOnce<A39_Args, > where A39_Args: Tuple,  {
    type A28_Output : ;
}

trait T41_FnMut<A39_Args, > where Self: T40_FnOnce<A39_Args, >, A39_Args: Tuple,  {
}

trait T42_Fn<A39_Args, > where Self: T41_FnMut<A39_Args, >, A39_Args: Tuple,  {
}

trait T44_Index<A43_Idx, > where A43_Idx : ?Sized,  {
    type A28_Output : ?Sized;
}

trait T45_Integer where Self: T32_Copy,  {
}

trait T8_Allocator {
}

trait T46_Hash {
}

trait T48_Borrow<A47_Borrowed, > where A47_Borrowed : ?Sized,  {
}

trait T49_IndexSpec<A43_Idx, > where Self: T44_Index<A43_Idx, >, A43_Idx : ?Sized,  {
}

trait T50_Hasher {
}

trait T51_BuildHasher {
    type A52_Hasher : T50_Hasher;
}

trait T53_RangeBounds<A10_T, > where A10_T : ?Sized,  {
}

trait T54_RangeBoundsSpec<A10_T, > where Self: T53_RangeBounds<A10_T, >, A10_T : ?Sized,  {
}

trait T12_ZeroablePrimitive where Self: Sized, Self: T32_Copy,  {
}

trait T55_ZeroablePrimitiveSpec where Self: Sized, Self: T32_Copy, Self: T12_ZeroablePrimitive,  {
}

struct D1_Global(
);

struct D2_DefaultHasher(
);

struct D3_RandomState(
);

struct D9_HashMap<A4_Key, A5_Value, A6_S, A7_A, >(
    Box<A4_Key, >,
    Box<A5_Value, >,
    Box<A6_S, >,
    Box<A7_A, >,
) where A7_A: T8_Allocator, ;

struct D11_Bound<A10_T, >(
    Box<A10_T, >,
) where ;

struct D13_NonZero<A10_T, >(
    Box<A10_T, >,
) where A10_T: T12_ZeroablePrimitive, ;

struct D14_ISet<A7_A, >(
    Box<A7_A, >,
    C<0, (Box<(A7_A, ), >, Box<bool, >, ), >,
) where ;

struct D17_Map<A15_K, A16_V, >(
    Box<A15_K, >,
    Box<A16_V, >,
) where ;

struct D18_Provenance(
);

struct D19_PtrData<A10_T, >(
    Box<A10_T, >,
    <A10_T as std::ptr::Pointee>::Metadata,
) where A10_T : ?Sized, ;

struct D20_SeqInner<A7_A, >(
    Box<A7_A, >,
) where ;

struct D21_Seq<A7_A, >(
    Box<A7_A, >,
    D20_SeqInner<A7_A, >,
) where ;

struct D22_Set<A7_A, >(
    Box<A7_A, >,
) where ;

struct D23_String(
);

impl<A10_T, const A56_N: usize, > T24_View for Arr<A10_T, A56_N, > where  {
    type A16_V = D21_Seq<A10_T, >;
}

impl<A10_T, const A56_N: usize, > T25_ArrayAdditionalSpecFns<A10_T, > for Arr<A10_T, A56_N, > where  {
}

impl<A10_T, > T24_View for C<1, (Box<A10_T, >, ), > where A10_T : ?Sized,  {
    type A16_V = D19_PtrData<A10_T, >;
}

impl<A10_T, > T24_View for C<10, (Box<C<1, (Box<A10_T, >, ), >, >, ), > where A10_T : ?Sized,  {
    type A16_V = D19_PtrData<A10_T, >;
}

impl<A10_T, > T24_View for [A10_T] where  {
    type A16_V = D21_Seq<A10_T, >;
}

impl<A10_T, > T26_SliceAdditionalSpecFns<A10_T, > for [A10_T] where  {
}

impl T24_View for str {
    type A16_V = D21_Seq<char, >;
}

impl T30_StringSliceAdditionalSpecFns for str {
}

impl T24_View for D23_String {
    type A16_V = D21_Seq<char, >;
}

impl T29_SliceIndexSpec<str, > for (Box<D11_Bound<usize, >, >, Box<D11_Bound<usize, >, >, ) {
}

impl<A57_I, > T49_IndexSpec<A57_I, > for str where A57_I: T29_SliceIndexSpec<str, >,  {
}

impl<A7_A, > T24_View for C<2, (Box<A7_A, >, ), > where A7_A: T24_View, A7_A : ?Sized,  {
    type A16_V = <A7_A as T24_View>::A16_V;
}

impl<A7_A, > T24_View for C<4, (Box<A7_A, >, Box<D1_Global, >, ), > where A7_A: T24_View, A7_A : ?Sized,  {
    type A16_V = <A7_A as T24_View>::A16_V;
}

impl<A7_A, > T24_View for C<5, (Box<A7_A, >, Box<D1_Global, >, ), > where A7_A: T24_View,  {
    type A16_V = <A7_A as T24_View>::A16_V;
}

impl<A7_A, > T24_View for C<6, (Box<A7_A, >, Box<D1_Global, >, ), > where A7_A: T24_View,  {
    type A16_V = <A7_A as T24_View>::A16_V;
}

impl<A4_Key, A5_Value, A6_S, A7_A, > T24_View for D9_HashMap<A4_Key, A5_Value, A6_S, A7_A, > where A7_A: T8_Allocator,  {
    type A16_V = D17_Map<A4_Key, A5_Value, >;
}

impl T24_View for () {
    type A16_V = ();
}

impl T24_View for bool {
    type A16_V = bool;
}

impl T24_View for u8 {
    type A16_V = u8;
}

impl T24_View for u16 {
    type A16_V = u16;
}

impl T24_View for u32 {
    type A16_V = u32;
}

impl T24_View for u64 {
    type A16_V = u64;
}

impl T24_View for u128 {
    type A16_V = u128;
}

impl T24_View for usize {
    type A16_V = usize;
}

impl T24_View for i8 {
    type A16_V = i8;
}

impl T24_View for i16 {
    type A16_V = i16;
}

impl T24_View for i32 {
    type A16_V = i32;
}

impl T24_View for i64 {
    type A16_V = i64;
}

impl T24_View for i128 {
    type A16_V = i128;
}

impl T24_View for isize {
    type A16_V = isize;
}

impl T24_View for char {
    type A16_V = char;
}

impl<A58_A0, A59_A1, > T24_View for (Box<A58_A0, >, Box<A59_A1, >, ) where A58_A0: T24_View, A59_A1: T24_View,  {
    type A16_V = (Box<<A58_A0 as T24_View>::A16_V, >, Box<<A59_A1 as T24_View>::A16_V, >, );
}

impl T37_FromSpec<u8, > for u16 {
}

impl T37_FromSpec<u8, > for u32 {
}

impl T37_FromSpec<u8, > for u64 {
}

impl T37_FromSpec<u8, > for usize {
}

impl T37_FromSpec<u8, > for u128 {
}

impl T37_FromSpec<u16, > for u32 {
}

impl T37_FromSpec<u16, > for u64 {
}

impl T37_FromSpec<u16, > for usize {
}

impl T37_FromSpec<u16, > for u128 {
}

impl T37_FromSpec<u32, > for u64 {
}

impl T37_FromSpec<u32, > for u128 {
}

impl T37_FromSpec<u64, > for u128 {
}

impl T37_FromSpec<i8, > for i16 {
}

impl T37_FromSpec<i8, > for i32 {
}

impl T37_FromSpec<i8, > for i64 {
}

impl T37_FromSpec<i8, > for isize {
}

impl T37_FromSpec<i8, > for i128 {
}

impl T37_FromSpec<i16, > for i32 {
}

impl T37_FromSpec<i16, > for i64 {
}

impl T37_FromSpec<i16, > for isize {
}

impl T37_FromSpec<i16, > for i128 {
}

impl T37_FromSpec<i32, > for i64 {
}

impl T37_FromSpec<i32, > for i128 {
}

impl T37_FromSpec<i64, > for i128 {
}

impl T24_View for D2_DefaultHasher {
    type A16_V = D21_Seq<D21_Seq<u8, >, >;
}

impl<A10_T, > T54_RangeBoundsSpec<A10_T, > for (Box<D11_Bound<A10_T, >, >, Box<D11_Bound<A10_T, >, >, ) where  {
}

impl<A10_T, > T54_RangeBoundsSpec<A10_T, > for (Box<D11_Bound<C<2, (Box<A10_T, >, ), >, >, >, Box<D11_Bound<C<2, (Box<A10_T, >, ), >, >, >, ) where A10_T : ?Sized,  {
}

impl<A10_T, > T29_SliceIndexSpec<[A10_T], > for usize where  {
}

impl<A10_T, A57_I, > T49_IndexSpec<A57_I, > for [A10_T] where A57_I: T27_SliceIndex<[A10_T], >,  {
}

impl<A10_T, A57_I, const A56_N: usize, > T49_IndexSpec<A57_I, > for Arr<A10_T, A56_N, > where [A10_T]: T44_Index<A57_I, >,  {
}

impl T55_ZeroablePrimitiveSpec for char {
}

impl T55_ZeroablePrimitiveSpec for u8 {
}

impl T55_ZeroablePrimitiveSpec for u16 {
}

impl T55_ZeroablePrimitiveSpec for u32 {
}

impl T55_ZeroablePrimitiveSpec for u64 {
}

impl T55_ZeroablePrimitiveSpec for usize {
}

impl T55_ZeroablePrimitiveSpec for i8 {
}

impl T55_ZeroablePrimitiveSpec for i16 {
}

impl T55_ZeroablePrimitiveSpec for i32 {
}

impl T55_ZeroablePrimitiveSpec for i64 {
}

impl T55_ZeroablePrimitiveSpec for isize {
}

impl<A10_T, > T24_View for D13_NonZero<A10_T, > where A10_T: T12_ZeroablePrimitive,  {
    type A16_V = A10_T;
}

impl<A10_T, > T37_FromSpec<D13_NonZero<A10_T, >, > for A10_T where A10_T: T12_ZeroablePrimitive,  {
}

impl T12_ZeroablePrimitive for u8 {
}

impl T12_ZeroablePrimitive for u16 {
}

impl T12_ZeroablePrimitive for u32 {
}

impl T12_ZeroablePrimitive for u64 {
}

impl T12_ZeroablePrimitive for u128 {
}

impl T12_ZeroablePrimitive for usize {
}

impl T12_ZeroablePrimitive for i8 {
}

impl T12_ZeroablePrimitive for i16 {
}

impl T12_ZeroablePrimitive for i32 {
}

impl T12_ZeroablePrimitive for i64 {
}

impl T12_ZeroablePrimitive for i128 {
}

impl T12_ZeroablePrimitive for isize {
}

impl T12_ZeroablePrimitive for char {
}

impl<A10_T, > T48_Borrow<A10_T, > for A10_T where A10_T : ?Sized,  {
}

impl<A10_T, > T48_Borrow<A10_T, > for C<2, (Box<A10_T, >, ), > where A10_T : ?Sized,  {
}

impl<A10_T, > T48_Borrow<A10_T, > for C<3, (Box<A10_T, >, ), > where A10_T : ?Sized,  {
}

impl<A10_T, const A56_N: usize, > T48_Borrow<[A10_T], > for Arr<A10_T, A56_N, > where  {
}

impl<A10_T, A7_A, > T48_Borrow<A10_T, > for C<4, (Box<A10_T, >, Box<A7_A, >, ), > where A7_A: T8_Allocator, A10_T : ?Sized,  {
}

impl<A10_T, A7_A, > T48_Borrow<A10_T, > for C<5, (Box<A10_T, >, Box<A7_A, >, ), > where A7_A: T8_Allocator, A10_T : ?Sized,  {
}

impl T48_Borrow<str, > for D23_String {
}

impl<A10_T, A7_A, > T48_Borrow<A10_T, > for C<6, (Box<A10_T, >, Box<A7_A, >, ), > where A7_A: T8_Allocator, A10_T : ?Sized,  {
}

impl<A15_K, A16_V, A6_S, A7_A, > T31_Clone for D9_HashMap<A15_K, A16_V, A6_S, A7_A, > where A15_K: T31_Clone, A16_V: T31_Clone, A6_S: T31_Clone, A7_A: T8_Allocator, A7_A: T31_Clone,  {
}

impl<A10_T, A7_A, > T31_Clone for C<4, (Box<A10_T, >, Box<A7_A, >, ), > where A10_T: T31_Clone, A7_A: T8_Allocator, A7_A: T31_Clone,  {
}

impl<A10_T, A7_A, > T31_Clone for C<4, (Box<[A10_T], >, Box<A7_A, >, ), > where A10_T: T31_Clone, A7_A: T8_Allocator, A7_A: T31_Clone,  {
}

impl T31_Clone for C<4, (Box<str, >, Box<D1_Global, >, ), > {
}

impl T31_Clone for D3_RandomState {
}

impl T31_Clone for D2_DefaultHasher {
}

impl<A10_T, > T31_Clone for D13_NonZero<A10_T, > where A10_T: T12_ZeroablePrimitive,  {
}

impl T31_Clone for usize {
}

impl T31_Clone for u8 {
}

impl T31_Clone for u16 {
}

impl T31_Clone for u32 {
}

impl T31_Clone for u64 {
}

impl T31_Clone for u128 {
}

impl T31_Clone for isize {
}

impl T31_Clone for i8 {
}

impl T31_Clone for i16 {
}

impl T31_Clone for i32 {
}

impl T31_Clone for i64 {
}

impl T31_Clone for i128 {
}

impl T31_Clone for bool {
}

impl T31_Clone for char {
}

impl<A10_T, > T31_Clone for C<10, (Box<C<1, (Box<A10_T, >, ), >, >, ), > where A10_T : ?Sized,  {
}

impl<A10_T, > T31_Clone for C<1, (Box<A10_T, >, ), > where A10_T : ?Sized,  {
}

impl<A10_T, > T31_Clone for C<2, (Box<A10_T, >, ), > where A10_T : ?Sized,  {
}

impl<A10_T, > T31_Clone for D11_Bound<A10_T, > where A10_T: T31_Clone,  {
}

impl<A10_T, const A56_N: usize, > T31_Clone for Arr<A10_T, A56_N, > where A10_T: T31_Clone,  {
}

impl T31_Clone for D1_Global {
}

impl<A10_T, A7_A, > T31_Clone for C<5, (Box<A10_T, >, Box<A7_A, >, ), > where A7_A: T8_Allocator, A7_A: T31_Clone, A10_T : ?Sized,  {
}

impl T31_Clone for D23_String {
}

impl<A10_T, A7_A, > T31_Clone for C<6, (Box<A10_T, >, Box<A7_A, >, ), > where A7_A: T8_Allocator, A7_A: T31_Clone, A10_T : ?Sized,  {
}

impl<A7_A, > T31_Clone for C<7, (Box<A7_A, >, ), > where  {
}

impl<A7_A, > T31_Clone for C<8, (Box<A7_A, >, ), > where A7_A: T32_Copy,  {
}

impl T31_Clone for int {
}

impl T31_Clone for nat {
}

impl<A15_K, A16_V, A6_S, A7_A, > T34_PartialEq<D9_HashMap<A15_K, A16_V, A6_S, A7_A, >, > for D9_HashMap<A15_K, A16_V, A6_S, A7_A, > where A15_K: T35_Eq, A15_K: T46_Hash, A16_V: T34_PartialEq<A16_V, >, A6_S: T51_BuildHasher, A7_A: T8_Allocator,  {
}

impl T34_PartialEq<str, > for str {
}

impl T34_PartialEq<D23_String, > for str {
}

impl<A7_A, A60_B, > T34_PartialEq<C<2, (Box<A60_B, >, ), >, > for C<2, (Box<A7_A, >, ), > where A7_A: T34_PartialEq<A60_B, >, A7_A : ?Sized, A60_B : ?Sized,  {
}

impl<A7_A, A60_B, > T34_PartialEq<C<3, (Box<A60_B, >, ), >, > for C<2, (Box<A7_A, >, ), > where A7_A: T34_PartialEq<A60_B, >, A7_A : ?Sized, A60_B : ?Sized,  {
}

impl<A10_T, A61_U, const A56_N: usize, > T34_PartialEq<Arr<A61_U, A56_N, >, > for C<2, (Box<[A10_T], >, ), > where A10_T: T34_PartialEq<A61_U, >,  {
}

impl T34_PartialEq<D23_String, > for C<2, (Box<str, >, ), > {
}

impl T34_PartialEq<D23_String, > for D23_String {
}

impl T34_PartialEq<str, > for D23_String {
}

impl T34_PartialEq<C<2, (Box<str, >, ), >, > for D23_String {
}

impl<A10_T, > T34_PartialEq<D13_NonZero<A10_T, >, > for D13_NonZero<A10_T, > where A10_T: T12_ZeroablePrimitive, A10_T: T34_PartialEq<A10_T, >,  {
}

impl<A10_T, > T34_PartialEq<C<10, (Box<C<1, (Box<A10_T, >, ), >, >, ), >, > for C<10, (Box<C<1, (Box<A10_T, >, ), >, >, ), > where A10_T : ?Sized,  {
}

impl<A10_T, > T34_PartialEq<C<1, (Box<A10_T, >, ), >, > for C<1, (Box<A10_T, >, ), > where A10_T : ?Sized,  {
}

impl T34_PartialEq<(), > for () {
}

impl T34_PartialEq<bool, > for bool {
}

impl T34_PartialEq<char, > for char {
}

impl T34_PartialEq<usize, > for usize {
}

impl T34_PartialEq<u8, > for u8 {
}

impl T34_PartialEq<u16, > for u16 {
}

impl T34_PartialEq<u32, > for u32 {
}

impl T34_PartialEq<u64, > for u64 {
}

impl T34_PartialEq<u128, > for u128 {
}

impl T34_PartialEq<isize, > for isize {
}

impl T34_PartialEq<i8, > for i8 {
}

impl T34_PartialEq<i16, > for i16 {
}

impl T34_PartialEq<i32, > for i32 {
}

impl T34_PartialEq<i64, > for i64 {
}

impl T34_PartialEq<i128, > for i128 {
}

impl<A7_A, A60_B, > T34_PartialEq<C<3, (Box<A60_B, >, ), >, > for C<3, (Box<A7_A, >, ), > where A7_A: T34_PartialEq<A60_B, >, A7_A : ?Sized, A60_B : ?Sized,  {
}

impl<A7_A, A60_B, > T34_PartialEq<C<2, (Box<A60_B, >, ), >, > for C<3, (Box<A7_A, >, ), > where A7_A: T34_PartialEq<A60_B, >, A7_A : ?Sized, A60_B : ?Sized,  {
}

impl<A10_T, A61_U, const A56_N: usize, > T34_PartialEq<Arr<A61_U, A56_N, >, > for C<3, (Box<[A10_T], >, ), > where A10_T: T34_PartialEq<A61_U, >,  {
}

impl<A10_T, > T34_PartialEq<D11_Bound<A10_T, >, > for D11_Bound<A10_T, > where A10_T: T34_PartialEq<A10_T, >,  {
}

impl<A10_T, A61_U, const A56_N: usize, > T34_PartialEq<Arr<A61_U, A56_N, >, > for Arr<A10_T, A56_N, > where A10_T: T34_PartialEq<A61_U, >,  {
}

impl<A10_T, A61_U, const A56_N: usize, > T34_PartialEq<[A61_U], > for Arr<A10_T, A56_N, > where A10_T: T34_PartialEq<A61_U, >,  {
}

impl<A10_T, A61_U, const A56_N: usize, > T34_PartialEq<C<2, (Box<[A61_U], >, ), >, > for Arr<A10_T, A56_N, > where A10_T: T34_PartialEq<A61_U, >,  {
}

impl<A10_T, A61_U, const A56_N: usize, > T34_PartialEq<C<3, (Box<[A61_U], >, ), >, > for Arr<A10_T, A56_N, > where A10_T: T34_PartialEq<A61_U, >,  {
}

impl<A10_T, A61_U, const A56_N: usize, > T34_PartialEq<Arr<A61_U, A56_N, >, > for [A10_T] where A10_T: T34_PartialEq<A61_U, >,  {
}

impl<A10_T, A61_U, > T34_PartialEq<[A61_U], > for [A10_T] where A10_T: T34_PartialEq<A61_U, >,  {
}

impl<A61_U, A10_T, > T34_PartialEq<(Box<A61_U, >, Box<A10_T, >, ), > for (Box<A61_U, >, Box<A10_T, >, ) where A61_U: T34_PartialEq<A61_U, >, A10_T: T34_PartialEq<A10_T, >,  {
}

impl<A10_T, A7_A, > T34_PartialEq<C<4, (Box<A10_T, >, Box<A7_A, >, ), >, > for C<4, (Box<A10_T, >, Box<A7_A, >, ), > where A10_T: T34_PartialEq<A10_T, >, A7_A: T8_Allocator, A10_T : ?Sized,  {
}

impl<A10_T, A7_A, > T34_PartialEq<C<5, (Box<A10_T, >, Box<A7_A, >, ), >, > for C<5, (Box<A10_T, >, Box<A7_A, >, ), > where A10_T: T34_PartialEq<A10_T, >, A7_A: T8_Allocator, A10_T : ?Sized,  {
}

impl<A10_T, A7_A, > T34_PartialEq<C<6, (Box<A10_T, >, Box<A7_A, >, ), >, > for C<6, (Box<A10_T, >, Box<A7_A, >, ), > where A10_T: T34_PartialEq<A10_T, >, A7_A: T8_Allocator, A10_T : ?Sized,  {
}

impl T34_PartialEq<int, > for int {
}

impl T34_PartialEq<nat, > for nat {
}

impl<A15_K, A16_V, A6_S, A7_A, > T35_Eq for D9_HashMap<A15_K, A16_V, A6_S, A7_A, > where A15_K: T35_Eq, A15_K: T46_Hash, A16_V: T35_Eq, A6_S: T51_BuildHasher, A7_A: T8_Allocator,  {
}

impl<A10_T, > T35_Eq for D13_NonZero<A10_T, > where A10_T: T12_ZeroablePrimitive, A10_T: T35_Eq,  {
}

impl<A10_T, > T35_Eq for C<10, (Box<C<1, (Box<A10_T, >, ), >, >, ), > where A10_T : ?Sized,  {
}

impl<A10_T, > T35_Eq for C<1, (Box<A10_T, >, ), > where A10_T : ?Sized,  {
}

impl T35_Eq for () {
}

impl T35_Eq for bool {
}

impl T35_Eq for char {
}

impl T35_Eq for usize {
}

impl T35_Eq for u8 {
}

impl T35_Eq for u16 {
}

impl T35_Eq for u32 {
}

impl T35_Eq for u64 {
}

impl T35_Eq for u128 {
}

impl T35_Eq for isize {
}

impl T35_Eq for i8 {
}

impl T35_Eq for i16 {
}

impl T35_Eq for i32 {
}

impl T35_Eq for i64 {
}

impl T35_Eq for i128 {
}

impl<A7_A, > T35_Eq for C<2, (Box<A7_A, >, ), > where A7_A: T35_Eq, A7_A : ?Sized,  {
}

impl<A7_A, > T35_Eq for C<3, (Box<A7_A, >, ), > where A7_A: T35_Eq, A7_A : ?Sized,  {
}

impl<A10_T, > T35_Eq for D11_Bound<A10_T, > where A10_T: T35_Eq,  {
}

impl<A10_T, const A56_N: usize, > T35_Eq for Arr<A10_T, A56_N, > where A10_T: T35_Eq,  {
}

impl<A10_T, > T35_Eq for [A10_T] where A10_T: T35_Eq,  {
}

impl T35_Eq for str {
}

impl<A61_U, A10_T, > T35_Eq for (Box<A61_U, >, Box<A10_T, >, ) where A61_U: T35_Eq, A10_T: T35_Eq,  {
}

impl<A10_T, A7_A, > T35_Eq for C<4, (Box<A10_T, >, Box<A7_A, >, ), > where A10_T: T35_Eq, A7_A: T8_Allocator, A10_T : ?Sized,  {
}

impl<A10_T, A7_A, > T35_Eq for C<5, (Box<A10_T, >, Box<A7_A, >, ), > where A10_T: T35_Eq, A7_A: T8_Allocator, A10_T : ?Sized,  {
}

impl T35_Eq for D23_String {
}

impl<A10_T, A7_A, > T35_Eq for C<6, (Box<A10_T, >, Box<A7_A, >, ), > where A10_T: T35_Eq, A7_A: T8_Allocator, A10_T : ?Sized,  {
}

impl T35_Eq for int {
}

impl T35_Eq for nat {
}

impl<A10_T, > T36_From<D13_NonZero<A10_T, >, > for A10_T where A10_T: T12_ZeroablePrimitive,  {
}

impl<A10_T, > T36_From<A10_T, > for A10_T where  {
}

impl<A15_K, A16_V, const A56_N: usize, > T36_From<Arr<(Box<A15_K, >, Box<A16_V, >, ), A56_N, >, > for D9_HashMap<A15_K, A16_V, D3_RandomState, D1_Global, > where A15_K: T35_Eq, A15_K: T46_Hash,  {
}

impl<A10_T, > T36_From<A10_T, > for C<4, (Box<A10_T, >, Box<D1_Global, >, ), > where  {
}

impl<A10_T, > T36_From<C<2, (Box<[A10_T], >, ), >, > for C<4, (Box<[A10_T], >, Box<D1_Global, >, ), > where A10_T: T31_Clone,  {
}

impl<A10_T, > T36_From<C<3, (Box<[A10_T], >, ), >, > for C<4, (Box<[A10_T], >, Box<D1_Global, >, ), > where A10_T: T31_Clone,  {
}

impl T36_From<C<2, (Box<str, >, ), >, > for C<4, (Box<str, >, Box<D1_Global, >, ), > {
}

impl T36_From<C<3, (Box<str, >, ), >, > for C<4, (Box<str, >, Box<D1_Global, >, ), > {
}

impl<A7_A, > T36_From<C<4, (Box<str, >, Box<A7_A, >, ), >, > for C<4, (Box<[u8], >, Box<A7_A, >, ), > where A7_A: T8_Allocator,  {
}

impl<A10_T, const A56_N: usize, > T36_From<Arr<A10_T, A56_N, >, > for C<4, (Box<[A10_T], >, Box<D1_Global, >, ), > where  {
}

impl T36_From<D23_String, > for C<4, (Box<str, >, Box<D1_Global, >, ), > {
}

impl<A10_T, > T36_From<A10_T, > for C<6, (Box<A10_T, >, Box<D1_Global, >, ), > where  {
}

impl<A10_T, const A56_N: usize, > T36_From<Arr<A10_T, A56_N, >, > for C<6, (Box<[A10_T], >, Box<D1_Global, >, ), > where  {
}

impl<A10_T, > T36_From<C<2, (Box<[A10_T], >, ), >, > for C<6, (Box<[A10_T], >, Box<D1_Global, >, ), > where A10_T: T31_Clone,  {
}

impl<A10_T, > T36_From<C<3, (Box<[A10_T], >, ), >, > for C<6, (Box<[A10_T], >, Box<D1_Global, >, ), > where A10_T: T31_Clone,  {
}

impl T36_From<C<2, (Box<str, >, ), >, > for C<6, (Box<str, >, Box<D1_Global, >, ), > {
}

impl T36_From<C<3, (Box<str, >, ), >, > for C<6, (Box<str, >, Box<D1_Global, >, ), > {
}

impl T36_From<D23_String, > for C<6, (Box<str, >, Box<D1_Global, >, ), > {
}

impl<A10_T, A7_A, > T36_From<C<4, (Box<A10_T, >, Box<A7_A, >, ), >, > for C<6, (Box<A10_T, >, Box<A7_A, >, ), > where A7_A: T8_Allocator, A10_T : ?Sized,  {
}

impl T36_From<C<6, (Box<str, >, Box<D1_Global, >, ), >, > for C<6, (Box<[u8], >, Box<D1_Global, >, ), > {
}

impl<A10_T, > T36_From<A10_T, > for C<5, (Box<A10_T, >, Box<D1_Global, >, ), > where  {
}

impl<A10_T, const A56_N: usize, > T36_From<Arr<A10_T, A56_N, >, > for C<5, (Box<[A10_T], >, Box<D1_Global, >, ), > where  {
}

impl<A10_T, > T36_From<C<2, (Box<[A10_T], >, ), >, > for C<5, (Box<[A10_T], >, Box<D1_Global, >, ), > where A10_T: T31_Clone,  {
}

impl<A10_T, > T36_From<C<3, (Box<[A10_T], >, ), >, > for C<5, (Box<[A10_T], >, Box<D1_Global, >, ), > where A10_T: T31_Clone,  {
}

impl T36_From<C<2, (Box<str, >, ), >, > for C<5, (Box<str, >, Box<D1_Global, >, ), > {
}

impl T36_From<C<3, (Box<str, >, ), >, > for C<5, (Box<str, >, Box<D1_Global, >, ), > {
}

impl T36_From<D23_String, > for C<5, (Box<str, >, Box<D1_Global, >, ), > {
}

impl<A10_T, A7_A, > T36_From<C<4, (Box<A10_T, >, Box<A7_A, >, ), >, > for C<5, (Box<A10_T, >, Box<A7_A, >, ), > where A7_A: T8_Allocator, A10_T : ?Sized,  {
}

impl T36_From<C<5, (Box<str, >, Box<D1_Global, >, ), >, > for C<5, (Box<[u8], >, Box<D1_Global, >, ), > {
}

impl T36_From<D13_NonZero<u8, >, > for D13_NonZero<u16, > {
}

impl T36_From<D13_NonZero<u8, >, > for D13_NonZero<u32, > {
}

impl T36_From<D13_NonZero<u8, >, > for D13_NonZero<u64, > {
}

impl T36_From<D13_NonZero<u8, >, > for D13_NonZero<u128, > {
}

impl T36_From<D13_NonZero<u8, >, > for D13_NonZero<usize, > {
}

impl T36_From<D13_NonZero<u16, >, > for D13_NonZero<u32, > {
}

impl T36_From<D13_NonZero<u16, >, > for D13_NonZero<u64, > {
}

impl T36_From<D13_NonZero<u16, >, > for D13_NonZero<u128, > {
}

impl T36_From<D13_NonZero<u16, >, > for D13_NonZero<usize, > {
}

impl T36_From<D13_NonZero<u32, >, > for D13_NonZero<u64, > {
}

impl T36_From<D13_NonZero<u32, >, > for D13_NonZero<u128, > {
}

impl T36_From<D13_NonZero<u64, >, > for D13_NonZero<u128, > {
}

impl T36_From<D13_NonZero<i8, >, > for D13_NonZero<i16, > {
}

impl T36_From<D13_NonZero<i8, >, > for D13_NonZero<i32, > {
}

impl T36_From<D13_NonZero<i8, >, > for D13_NonZero<i64, > {
}

impl T36_From<D13_NonZero<i8, >, > for D13_NonZero<i128, > {
}

impl T36_From<D13_NonZero<i8, >, > for D13_NonZero<isize, > {
}

impl T36_From<D13_NonZero<i16, >, > for D13_NonZero<i32, > {
}

impl T36_From<D13_NonZero<i16, >, > for D13_NonZero<i64, > {
}

impl T36_From<D13_NonZero<i16, >, > for D13_NonZero<i128, > {
}

impl T36_From<D13_NonZero<i16, >, > for D13_NonZero<isize, > {
}

impl T36_From<D13_NonZero<i32, >, > for D13_NonZero<i64, > {
}

impl T36_From<D13_NonZero<i32, >, > for D13_NonZero<i128, > {
}

impl T36_From<D13_NonZero<i64, >, > for D13_NonZero<i128, > {
}

impl T36_From<D13_NonZero<u8, >, > for D13_NonZero<i16, > {
}

impl T36_From<D13_NonZero<u8, >, > for D13_NonZero<i32, > {
}

impl T36_From<D13_NonZero<u8, >, > for D13_NonZero<i64, > {
}

impl T36_From<D13_NonZero<u8, >, > for D13_NonZero<i128, > {
}

impl T36_From<D13_NonZero<u8, >, > for D13_NonZero<isize, > {
}

impl T36_From<D13_NonZero<u16, >, > for D13_NonZero<i32, > {
}

impl T36_From<D13_NonZero<u16, >, > for D13_NonZero<i64, > {
}

impl T36_From<D13_NonZero<u16, >, > for D13_NonZero<i128, > {
}

impl T36_From<D13_NonZero<u32, >, > for D13_NonZero<i64, > {
}

impl T36_From<D13_NonZero<u32, >, > for D13_NonZero<i128, > {
}

impl T36_From<D13_NonZero<u64, >, > for D13_NonZero<i128, > {
}

impl T36_From<bool, > for usize {
}

impl T36_From<u8, > for usize {
}

impl T36_From<u16, > for usize {
}

impl<A10_T, > T36_From<(Box<A10_T, >, Box<A10_T, >, ), > for Arr<A10_T, 2, > where  {
}

impl T36_From<bool, > for u8 {
}

impl T36_From<bool, > for u16 {
}

impl T36_From<u8, > for u16 {
}

impl T36_From<bool, > for u32 {
}

impl T36_From<u8, > for u32 {
}

impl T36_From<u16, > for u32 {
}

impl T36_From<char, > for u32 {
}

impl T36_From<bool, > for u64 {
}

impl T36_From<u8, > for u64 {
}

impl T36_From<u16, > for u64 {
}

impl T36_From<u32, > for u64 {
}

impl T36_From<char, > for u64 {
}

impl T36_From<bool, > for u128 {
}

impl T36_From<u8, > for u128 {
}

impl T36_From<u16, > for u128 {
}

impl T36_From<u32, > for u128 {
}

impl T36_From<u64, > for u128 {
}

impl T36_From<char, > for u128 {
}

impl T36_From<bool, > for i8 {
}

impl T36_From<bool, > for i16 {
}

impl T36_From<i8, > for i16 {
}

impl T36_From<u8, > for i16 {
}

impl T36_From<bool, > for i32 {
}

impl T36_From<i8, > for i32 {
}

impl T36_From<i16, > for i32 {
}

impl T36_From<u8, > for i32 {
}

impl T36_From<u16, > for i32 {
}

impl T36_From<bool, > for i64 {
}

impl T36_From<i8, > for i64 {
}

impl T36_From<i16, > for i64 {
}

impl T36_From<i32, > for i64 {
}

impl T36_From<u8, > for i64 {
}

impl T36_From<u16, > for i64 {
}

impl T36_From<u32, > for i64 {
}

impl T36_From<bool, > for i128 {
}

impl T36_From<i8, > for i128 {
}

impl T36_From<i16, > for i128 {
}

impl T36_From<i32, > for i128 {
}

impl T36_From<i64, > for i128 {
}

impl T36_From<u8, > for i128 {
}

impl T36_From<u16, > for i128 {
}

impl T36_From<u32, > for i128 {
}

impl T36_From<u64, > for i128 {
}

impl T36_From<bool, > for isize {
}

impl T36_From<i8, > for isize {
}

impl T36_From<u8, > for isize {
}

impl T36_From<i16, > for isize {
}

impl T36_From<u8, > for char {
}

impl<A10_T, > T36_From<Arr<A10_T, 2, >, > for (Box<A10_T, >, Box<A10_T, >, ) where  {
}

impl T36_From<C<2, (Box<str, >, ), >, > for D23_String {
}

impl T36_From<C<3, (Box<str, >, ), >, > for D23_String {
}

impl T36_From<C<2, (Box<D23_String, >, ), >, > for D23_String {
}

impl T36_From<C<4, (Box<str, >, Box<D1_Global, >, ), >, > for D23_String {
}

impl T36_From<char, > for D23_String {
}

impl<A10_T, > T32_Copy for D13_NonZero<A10_T, > where A10_T: T12_ZeroablePrimitive,  {
}

impl T32_Copy for usize {
}

impl T32_Copy for u8 {
}

impl T32_Copy for u16 {
}

impl T32_Copy for u32 {
}

impl T32_Copy for u64 {
}

impl T32_Copy for u128 {
}

impl T32_Copy for isize {
}

impl T32_Copy for i8 {
}

impl T32_Copy for i16 {
}

impl T32_Copy for i32 {
}

impl T32_Copy for i64 {
}

impl T32_Copy for i128 {
}

impl T32_Copy for bool {
}

impl T32_Copy for char {
}

impl<A10_T, > T32_Copy for C<10, (Box<C<1, (Box<A10_T, >, ), >, >, ), > where A10_T : ?Sized,  {
}

impl<A10_T, > T32_Copy for C<1, (Box<A10_T, >, ), > where A10_T : ?Sized,  {
}

impl<A10_T, > T32_Copy for C<2, (Box<A10_T, >, ), > where A10_T : ?Sized,  {
}

impl<A10_T, > T32_Copy for D11_Bound<A10_T, > where A10_T: T32_Copy,  {
}

impl<A10_T, const A56_N: usize, > T32_Copy for Arr<A10_T, A56_N, > where A10_T: T32_Copy,  {
}

impl T32_Copy for D1_Global {
}

impl<A7_A, > T32_Copy for C<7, (Box<A7_A, >, ), > where  {
}

impl<A7_A, > T32_Copy for C<8, (Box<A7_A, >, ), > where A7_A: T32_Copy,  {
}

impl T32_Copy for int {
}

impl T32_Copy for nat {
}

impl<A7_A, A62_F, > T42_Fn<A7_A, > for C<2, (Box<A62_F, >, ), > where A7_A: Tuple, A62_F: T42_Fn<A7_A, >, A62_F : ?Sized,  {
}

impl<A39_Args, A62_F, A7_A, > T42_Fn<A39_Args, > for C<4, (Box<A62_F, >, Box<A7_A, >, ), > where A39_Args: Tuple, A62_F: T42_Fn<A39_Args, >, A7_A: T8_Allocator, A62_F : ?Sized,  {
}

impl<A7_A, A62_F, > T41_FnMut<A7_A, > for C<2, (Box<A62_F, >, ), > where A7_A: Tuple, A62_F: T42_Fn<A7_A, >, A62_F : ?Sized,  {
}

impl<A7_A, A62_F, > T41_FnMut<A7_A, > for C<3, (Box<A62_F, >, ), > where A7_A: Tuple, A62_F: T41_FnMut<A7_A, >, A62_F : ?Sized,  {
}

impl<A39_Args, A62_F, A7_A, > T41_FnMut<A39_Args, > for C<4, (Box<A62_F, >, Box<A7_A, >, ), > where A39_Args: Tuple, A62_F: T41_FnMut<A39_Args, >, A7_A: T8_Allocator, A62_F : ?Sized,  {
}

impl<A7_A, A62_F, > T40_FnOnce<A7_A, > for C<2, (Box<A62_F, >, ), > where A7_A: Tuple, A62_F: T42_Fn<A7_A, >, A62_F : ?Sized,  {
    type A28_Output = <A62_F as T40_FnOnce<A7_A, >>::A28_Output;
}

impl<A7_A, A62_F, > T40_FnOnce<A7_A, > for C<3, (Box<A62_F, >, ), > where A7_A: Tuple, A62_F: T41_FnMut<A7_A, >, A62_F : ?Sized,  {
    type A28_Output = <A62_F as T40_FnOnce<A7_A, >>::A28_Output;
}

impl<A39_Args, A62_F, A7_A, > T40_FnOnce<A39_Args, > for C<4, (Box<A62_F, >, Box<A7_A, >, ), > where A39_Args: Tuple, A62_F: T40_FnOnce<A39_Args, >, A7_A: T8_Allocator, A62_F : ?Sized,  {
    type A28_Output = <A62_F as T40_FnOnce<A39_Args, >>::A28_Output;
}

impl<A15_K, A63_Q, A16_V, A6_S, A7_A, > T44_Index<C<2, (Box<A63_Q, >, ), >, > for D9_HashMap<A15_K, A16_V, A6_S, A7_A, > where A15_K: T35_Eq, A15_K: T46_Hash, A15_K: T48_Borrow<A63_Q, >, A63_Q: T35_Eq, A63_Q: T46_Hash, A6_S: T51_BuildHasher, A7_A: T8_Allocator, A63_Q : ?Sized,  {
    type A28_Output = A16_V;
}

impl<A10_T, A57_I, const A56_N: usize, > T44_Index<A57_I, > for Arr<A10_T, A56_N, > where [A10_T]: T44_Index<A57_I, >,  {
    type A28_Output = <[A10_T] as T44_Index<A57_I, >>::A28_Output;
}

impl<A10_T, A57_I, > T44_Index<A57_I, > for [A10_T] where A57_I: T27_SliceIndex<[A10_T], >,  {
    type A28_Output = <A57_I as T27_SliceIndex<[A10_T], >>::A28_Output;
}

impl<A57_I, > T44_Index<A57_I, > for str where A57_I: T27_SliceIndex<str, >,  {
    type A28_Output = <A57_I as T27_SliceIndex<str, >>::A28_Output;
}

impl<A57_I, > T44_Index<A57_I, > for D23_String where A57_I: T27_SliceIndex<str, >,  {
    type A28_Output = <A57_I as T27_SliceIndex<str, >>::A28_Output;
}

impl<A10_T, > T53_RangeBounds<A10_T, > for (Box<D11_Bound<A10_T, >, >, Box<D11_Bound<A10_T, >, >, ) where  {
}

impl<A10_T, > T53_RangeBounds<A10_T, > for (Box<D11_Bound<C<2, (Box<A10_T, >, ), >, >, >, Box<D11_Bound<C<2, (Box<A10_T, >, ), >, >, >, ) where A10_T : ?Sized,  {
}

impl<A10_T, > T46_Hash for D13_NonZero<A10_T, > where A10_T: T12_ZeroablePrimitive, A10_T: T46_Hash,  {
}

impl<A10_T, > T46_Hash for D11_Bound<A10_T, > where A10_T: T46_Hash,  {
}

impl<A10_T, const A56_N: usize, > T46_Hash for Arr<A10_T, A56_N, > where A10_T: T46_Hash,  {
}

impl T46_Hash for u8 {
}

impl T46_Hash for u16 {
}

impl T46_Hash for u32 {
}

impl T46_Hash for u64 {
}

impl T46_Hash for usize {
}

impl T46_Hash for i8 {
}

impl T46_Hash for i16 {
}

impl T46_Hash for i32 {
}

impl T46_Hash for i64 {
}

impl T46_Hash for isize {
}

impl T46_Hash for u128 {
}

impl T46_Hash for i128 {
}

impl T46_Hash for bool {
}

impl T46_Hash for char {
}

impl T46_Hash for str {
}

impl T46_Hash for () {
}

impl<A10_T, A60_B, > T46_Hash for (Box<A10_T, >, Box<A60_B, >, ) where A10_T: T46_Hash, A60_B: T46_Hash,  {
}

impl<A10_T, > T46_Hash for [A10_T] where A10_T: T46_Hash,  {
}

impl<A10_T, > T46_Hash for C<2, (Box<A10_T, >, ), > where A10_T: T46_Hash, A10_T : ?Sized,  {
}

impl<A10_T, > T46_Hash for C<3, (Box<A10_T, >, ), > where A10_T: T46_Hash, A10_T : ?Sized,  {
}

impl<A10_T, > T46_Hash for C<10, (Box<C<1, (Box<A10_T, >, ), >, >, ), > where A10_T : ?Sized,  {
}

impl<A10_T, > T46_Hash for C<1, (Box<A10_T, >, ), > where A10_T : ?Sized,  {
}

impl<A10_T, A7_A, > T46_Hash for C<4, (Box<A10_T, >, Box<A7_A, >, ), > where A10_T: T46_Hash, A7_A: T8_Allocator, A10_T : ?Sized,  {
}

impl<A10_T, A7_A, > T46_Hash for C<5, (Box<A10_T, >, Box<A7_A, >, ), > where A10_T: T46_Hash, A7_A: T8_Allocator, A10_T : ?Sized,  {
}

impl T46_Hash for D23_String {
}

impl<A10_T, A7_A, > T46_Hash for C<6, (Box<A10_T, >, Box<A7_A, >, ), > where A10_T: T46_Hash, A7_A: T8_Allocator, A10_T : ?Sized,  {
}

impl T50_Hasher for D2_DefaultHasher {
}

impl<A64_H, > T50_Hasher for C<3, (Box<A64_H, >, ), > where A64_H: T50_Hasher, A64_H : ?Sized,  {
}

impl<A10_T, A7_A, > T50_Hasher for C<4, (Box<A10_T, >, Box<A7_A, >, ), > where A10_T: T50_Hasher, A7_A: T8_Allocator, A10_T : ?Sized,  {
}

impl T51_BuildHasher for D3_RandomState {
    type A52_Hasher = D2_DefaultHasher;
}

impl<A10_T, > T27_SliceIndex<[A10_T], > for usize where  {
    type A28_Output = A10_T;
}

impl<A10_T, > T27_SliceIndex<[A10_T], > for (Box<D11_Bound<usize, >, >, Box<D11_Bound<usize, >, >, ) where  {
    type A28_Output = [A10_T];
}

impl T27_SliceIndex<str, > for (Box<D11_Bound<usize, >, >, Box<D11_Bound<usize, >, >, ) {
    type A28_Output = str;
}

impl<A7_A, > T8_Allocator for C<2, (Box<A7_A, >, ), > where A7_A: T8_Allocator, A7_A : ?Sized,  {
}

impl<A7_A, > T8_Allocator for C<3, (Box<A7_A, >, ), > where A7_A: T8_Allocator, A7_A : ?Sized,  {
}

impl T8_Allocator for D1_Global {
}

impl<A10_T, A7_A, > T8_Allocator for C<4, (Box<A10_T, >, Box<A7_A, >, ), > where A10_T: T8_Allocator, A7_A: T8_Allocator, A10_T : ?Sized,  {
}

impl<A10_T, A7_A, > T8_Allocator for C<5, (Box<A10_T, >, Box<A7_A, >, ), > where A10_T: T8_Allocator, A7_A: T8_Allocator, A10_T : ?Sized,  {
}

impl<A10_T, A7_A, > T8_Allocator for C<6, (Box<A10_T, >, Box<A7_A, >, ), > where A10_T: T8_Allocator, A7_A: T8_Allocator, A10_T : ?Sized,  {
}

impl T45_Integer for u8 {
}

impl T45_Integer for u16 {
}

impl T45_Integer for u32 {
}

impl T45_Integer for u64 {
}

impl T45_Integer for u128 {
}

impl T45_Integer for usize {
}

impl T45_Integer for i8 {
}

impl T45_Integer for i16 {
}

impl T45_Integer for i32 {
}

impl T45_Integer for i64 {
}

impl T45_Integer for i128 {
}

impl T45_Integer for isize {
}

impl T45_Integer for int {
}

impl T45_Integer for nat {
}

impl T45_Integer for char {
}
